(** Facts about boolean root paths, extended-integer arithmetic and events. *)
From Coq Require Import List Bool Arith ZArith Lia.
From SR Require Import Base.PathB Base.Ext Model.Recon.
Import ListNotations.
Local Open Scope Z_scope.

(** * paths *)
Lemma anc_snoc_inv s b x : anc (s ++ [b]) x = true -> exists y, x = s ++ b :: y.
Proof. rewrite is_prefix_spec. intros [c ->]. exists c. rewrite <- app_assoc. reflexivity. Qed.
Lemma anc_snoc_intro s b y : anc (s ++ [b]) (s ++ b :: y) = true.
Proof. apply is_prefix_spec. exists y. rewrite <- app_assoc. reflexivity. Qed.
Lemma lcp_app s a b : lcp (s ++ a) (s ++ b) = s ++ lcp a b.
Proof. induction s as [|x s IH]; simpl; auto. rewrite eqb_reflx, IH. reflexivity. Qed.
Lemma anc_app_cancel s a b : anc (s ++ a) (s ++ b) = anc a b.
Proof. induction s as [|x s IH]; simpl; auto. rewrite eqb_reflx. simpl. exact IH. Qed.
Lemma anc_self_app s a : anc s (s ++ a) = true.
Proof. apply is_prefix_spec; eauto. Qed.
Lemma anc_app_self_nil s a : anc (s ++ a) s = true -> a = [].
Proof.
  intros H. apply is_prefix_length in H. rewrite app_length in H.
  destruct a; auto. simpl in H. lia.
Qed.
Lemma dist_anc s x : anc s x = true -> dist s x = len x - len s.
Proof. intros H. unfold dist. rewrite (lcp_of_prefix _ _ H). lia. Qed.
Lemma len_anc s x : anc s x = true -> len s <= len x.
Proof. intros H; apply is_prefix_length in H; unfold len; lia. Qed.
Lemma len_nonneg p : 0 <= len p.
Proof. unfold len; lia. Qed.
Lemma dist_nonneg a b : 0 <= dist a b.
Proof.
  unfold dist. pose proof (len_anc _ _ (lcp_prefix_l a b)). pose proof (len_anc _ _ (lcp_prefix_r a b)). lia.
Qed.
Lemma sanc_false_of_anc s x : anc s x = true -> sanc x s = false.
Proof.
  intros H. unfold sanc. destruct (anc x s) eqn:E; auto.
  rewrite (is_prefix_antisym _ _ E H). destruct (path_eqb_spec s s); auto; congruence.
Qed.
Lemma path_eqb_refl p : path_eqb p p = true.
Proof. destruct (path_eqb_spec p p); congruence. Qed.
Lemma anc_skipn s t : anc s t = true -> t = s ++ skipn (length s) t.
Proof.
  rewrite is_prefix_spec. intros [d ->]. f_equal.
  rewrite skipn_app, skipn_all, Nat.sub_diag. reflexivity.
Qed.

(** * extended integers *)
Definition ele (a b : ext) : Prop := ext_ltb b a = false.
Lemma ele_refl a : ele a a. Proof. apply ext_ltb_irrefl. Qed.
Lemma ele_trans a b c : ele a b -> ele b c -> ele a c.
Proof. unfold ele. destruct a, b, c; simpl; try congruence; rewrite !Z.ltb_ge; lia. Qed.
Lemma ele_antisym a b : ele a b -> ele b a -> a = b.
Proof. unfold ele. destruct a, b; simpl; try congruence. rewrite !Z.ltb_ge. intros; f_equal; lia. Qed.
Lemma ele_PInf a : ele a PInf. Proof. destruct a; reflexivity. Qed.
Lemma ele_Fin x y : ele (Fin x) (Fin y) <-> x <= y.
Proof. unfold ele; simpl. rewrite Z.ltb_ge. tauto. Qed.
Lemma ext_add_comm a b : ext_add a b = ext_add b a.
Proof. destruct a, b; simpl; auto. f_equal; lia. Qed.
Lemma ext_add_assoc a b c : ext_add a (ext_add b c) = ext_add (ext_add a b) c.
Proof. destruct a, b, c; simpl; auto. f_equal; lia. Qed.
Lemma ext_add_mono a a' b b' : ele a a' -> ele b b' -> ele (ext_add a b) (ext_add a' b').
Proof. unfold ele. destruct a, a', b, b'; simpl; try congruence; rewrite ?Z.ltb_ge; try lia; auto. Qed.
Lemma ext_add_0_l a : ext_add (Fin 0) a = a.
Proof. destruct a; simpl; auto. Qed.
Lemma ext_min_le_l a b : ele (ext_min a b) a.
Proof. unfold ext_min. destruct (ext_ltb b a) eqn:E; [|apply ele_refl]. unfold ele. now apply ext_ltb_asym. Qed.
Lemma ext_min_le_r a b : ele (ext_min a b) b.
Proof. unfold ext_min. destruct (ext_ltb b a) eqn:E; [apply ele_refl|exact E]. Qed.
Lemma ext_min_cases a b : ext_min a b = a \/ ext_min a b = b.
Proof. unfold ext_min. destruct (ext_ltb b a); auto. Qed.
Lemma ext_add_fin a b v : ext_add a b = Fin v -> exists x y, a = Fin x /\ b = Fin y /\ v = x + y.
Proof. destruct a, b; simpl; try discriminate. intros H; inversion H; eauto. Qed.

(** * events *)
Lemma event_SD s l r : event s l r = Spe \/ event s l r = Dup -> anc s l = true /\ anc s r = true.
Proof.
  unfold event. destruct (sanc l s || sanc r s); [intros [H|H]; discriminate|].
  destruct (anc s l) eqn:A, (anc s r) eqn:B; simpl; auto; intros [H|H]; discriminate.
Qed.
Lemma event_Spe_inv s l r : event s l r = Spe ->
  s = lcp l r /\ anc l r = false /\ anc r l = false.
Proof.
  unfold event. destruct (sanc l s || sanc r s); [discriminate|].
  destruct (anc s l && anc s r); [|destruct (anc s l); [discriminate|destruct (anc s r); discriminate]].
  destruct (path_eqb_spec s (lcp l r)); simpl; [|discriminate].
  unfold comparable. destruct (anc l r), (anc r l); simpl; try discriminate. auto.
Qed.
Lemma event_TrL_inv s l r : event s l r = TrL -> anc s l = true /\ anc s r = false /\ anc r s = false.
Proof.
  unfold event, sanc. destruct (anc s l) eqn:A, (anc s r) eqn:B; simpl;
    destruct (anc l s && negb (path_eqb l s) || anc r s && negb (path_eqb r s)) eqn:E; try discriminate.
  - destruct (path_eqb s (lcp l r) && negb (comparable l r)); discriminate.
  - intros _. repeat split; auto. apply orb_false_iff in E as [_ E].
    destruct (anc r s) eqn:R; auto. simpl in E. apply negb_false_iff in E.
    destruct (path_eqb_spec r s); [subst; rewrite is_prefix_refl in B|]; discriminate.
Qed.
Lemma event_TrR_inv s l r : event s l r = TrR -> anc s r = true /\ anc s l = false /\ anc l s = false.
Proof.
  unfold event, sanc. destruct (anc s l) eqn:A, (anc s r) eqn:B; simpl;
    destruct (anc l s && negb (path_eqb l s) || anc r s && negb (path_eqb r s)) eqn:E; try discriminate.
  - destruct (path_eqb s (lcp l r) && negb (comparable l r)); discriminate.
  - intros _. repeat split; auto. apply orb_false_iff in E as [E _].
    destruct (anc l s) eqn:R; auto. simpl in E. apply negb_false_iff in E.
    destruct (path_eqb_spec l s); [subst; rewrite is_prefix_refl in A|]; discriminate.
Qed.

(* the event at the lcp of two paths is a speciation or a duplication *)
Lemma event_at_lcp a b : event (lcp a b) a b = Spe \/ event (lcp a b) a b = Dup.
Proof.
  unfold event.
  rewrite (sanc_false_of_anc _ _ (lcp_prefix_l a b)), (sanc_false_of_anc _ _ (lcp_prefix_r a b)).
  simpl. rewrite lcp_prefix_l, lcp_prefix_r. simpl.
  destruct (path_eqb (lcp a b) (lcp a b) && negb (comparable a b)); auto.
Qed.
