(** The functions of [Gen/UspfsGen.v] -- generated from [src/superrec2/compute/unordered_super_reconciliation.py] by
    [translator/uspfs_gen.py] -- instantiated at root paths, against the model [Model/Uspfs.v] of the unordered
    super-reconciliation solvers (property C03).  This file is the INDEX of the tie: it states the closed theorems of every
    stage; the parts are separate files (developed separately against the fixed statements of [Proofs/UspfsGenStatements.v]):

      Proofs/UspfsGenCommon.v      [Common]: kinds / tags of the model as the records of the code ([kind_of], [oa_of], [tag_ca]),
                                   the three-dimensional table read through Proofs/TableGenProofs.v ([gsem3], [sub_of], [inv3]);
                                   [ModelO]: the cell of the model with the child values and the enumeration of the species as
                                   arguments ([uone_o], [uchoices_o], [ubatch_o], [ucell_o]; [ucell_o_eq]: the model's [ucell]
                                   is [ucell_o] at [snodes S]); [TableO]: [utab_o], the table for the orders of the code;
                                   [Embed]: the species tree of the model as the tree of nodes the code walks ([sembed3]).
      Proofs/UspfsGenStatements.v  the statements the parts were developed against.
      Proofs/UspfsGenStage1.v      STAGE 1: [_compute_gain_sets], [_compute_lca_sets].
      Proofs/UspfsGenEntry.v       STAGE 2, exact: [_compute_uspfs_entry] writes [ufirst_write (ubatch_o ..)] into its two cells.
      Proofs/UspfsGenModelPerm.v   STAGE 2, model: the enumeration order of the species does not matter ([ucell_o_sim]).
      Proofs/UspfsGenTableExact.v  STAGE 3, exact: every cell of the generated table is [utab_o].
      Proofs/UspfsGenTableModel.v  STAGE 3, model: [utab_o] against [Uspfs.uspfs_table]; packaged theorems.
      Proofs/UspfsGenDecode.v      STAGE 4, exact: [_decode_uspfs_table] ([Decode.gen_decode_uspfs_eq]), [output.cost()]
                                   ([soutput_cost_eq]), [_uspfs] ([gen_uspfs_exact], [gen_uspfs_of_table]), the two entry points
                                   ([gen_usreconcile_extended_uspfs_eq], [gen_usreconcile_base_uspfs_eq]) as Gallina
                                   descriptions in the orders of the code, errors included.
      Proofs/UspfsGenLink.v        STAGE 4, model (requires this file): [UspfsLink.decode_model_table(_perm)],
                                   [candidates_model], [gen_uspfs_model], and under the well-formedness record [UspfsLink.W]
                                   the two closed end-to-end theorems [gen_usreconcile_extended_uspfs_model] /
                                   [gen_usreconcile_base_uspfs_model]: the ALL result of the generated entry point is, as
                                   labelled trees, a permutation of the tags of [Uspfs.uspfs S c RALL true/false], empty exactly
                                   when they are; [UspfsLink.Ex]: [W] satisfiable, generated code run by vm_compute.

    Instantiation (as in [Proofs/SpfsGenProofs.v]).  Species are root paths ([sp := path], [path_eqb]), gene families [N]
    ([fam_eqb := N.eqb]); the species LCA object is a value of an arbitrary type whose operations are the path operations
    ([is_ancestor_of := anc], [distance := dist]) and whose [tree] is [sembed3 S []].  Object nodes carry identifiers of an
    arbitrary type with a decidable equality ([nid_eqb], [nid_eqb_spec]); theorems about whole trees assume them pairwise
    distinct ([NoDup (map TreeNode_id (TreeNode_postorder O))]: distinct Python objects).  A kind of the model ([false] = LCA,
    [true] = INHERIT) is a member of the enum ([kind_of]); a tag [((sl, kl), (sr, kr))] of the model is
    [ChildrenAssignment (Some (ObjectAssignment sl kl)) (Some (..))] ([tag_ca]); [gsem3 tb n s k] is what [table[n][s][k]]
    reads as.  Sets are duplicate-free lists: the theorems compare them with the model's sorted lists AS SETS and quantify over
    the order functions / the iteration order of the input dictionary ([order_ok], [items_ok]).  The object-tree LCA structure
    is assumed to compute lowest common ancestors ([olca_ok]: property C17).

    No generated function fails on well-formed inputs: the theorems have the form [gen_f .. = Ok ..]. *)
From Coq Require Import List Bool Arith ZArith NArith Lia Permutation.
From SR Require Gen.UspfsGen Model.Recon Model.Uspfs Base.PathB Base.Ext Model.Entry Model.LcaRec Model.Thl Proofs.PathFacts Proofs.EntryProofs Proofs.EntryGenProofs Proofs.TableGenProofs Gen.EntryGen Gen.TableGen Gen.EvalGen Proofs.ThlProofs Proofs.UspfsProofs Proofs.ThlGenProofs Proofs.EvalGenProofs Gen.ThlGen Proofs.ReconProofs Proofs.LcaProofs.
From SR Require Proofs.UspfsGenCommon Proofs.UspfsGenStatements Proofs.UspfsGenStage1 Proofs.UspfsGenEntry Proofs.UspfsGenModelPerm Proofs.UspfsGenTableExact Proofs.UspfsGenTableModel.

Module UspfsGenMain.
Import SR.Base.PathB SR.Base.Ext SR.Model.Entry SR.Model.Recon SR.Model.LcaRec SR.Model.Thl SR.Model.Uspfs SR.Proofs.PathFacts SR.Proofs.EntryProofs SR.Proofs.EntryGenProofs SR.Proofs.EvalGenProofs SR.Proofs.TableGenProofs SR.Proofs.ReconProofs SR.Proofs.ThlProofs SR.Proofs.LcaProofs SR.Proofs.UspfsProofs SR.Proofs.ThlGenProofs.
Import SR.Proofs.UspfsGenCommon.Common SR.Proofs.UspfsGenCommon.ModelO SR.Proofs.UspfsGenCommon.TableO SR.Proofs.UspfsGenCommon.Embed SR.Proofs.UspfsGenStatements.Statements.
Import ListNotations.
Local Open Scope Z_scope.
Module S1 := SR.Proofs.UspfsGenStage1.Stage1.
Module EN := SR.Proofs.UspfsGenEntry.Entry.
Module MP := SR.Proofs.UspfsGenModelPerm.ModelPerm.
Module TX := SR.Proofs.UspfsGenTableExact.TableExact.
Module TM := SR.Proofs.UspfsGenTableModel.TableModel.
Module TF := SR.Proofs.UspfsGenTableModel.TableFinal.

Section Main.
  Context {lca node_id : Type} (nid_eqb : node_id -> node_id -> bool).
  Hypothesis nid_eqb_spec : forall a b, reflect (a = b) (nid_eqb a b).
  Variable lcaobj : lca.
  Notation tree := (EV.TreeNode node_id).
  Notation DIST := (fun (_ : lca) => dist).
  Notation ANC := (fun (_ : lca) => anc).
  Notation oids l := (map (@EV.TreeNode_id node_id) l).
  Notation gsem3 := (gsem3 nid_eqb).
  Notation inv3 := (@inv3 node_id).

  (* ================================================================== *)
  (** * STAGE 1: see [Stage1.gen_compute_gain_sets_spec], [Stage1.gen_compute_lca_sets_spec], [Stage1.gain_lca_sets_code],
      [Stage1.lca_sets_subset_code] (restated below in the form the later stages use) *)

  (* ================================================================== *)
  (** * STAGE 2: one call of [_compute_uspfs_entry] against the model's cell *)
  Definition entry_eq : entry_eq_statement nid_eqb lcaobj := EN.gen_compute_uspfs_entry_eq nid_eqb nid_eqb_spec lcaobj.

  (** On a table whose two cells [(object, species, LCA / INHERIT)] do not exist yet and whose cells of the two children have the
      VALUES of the model's child tables [ta], [tb_], one call never fails and leaves both cells with the value of the model's
      cell for every retention policy, no tag exactly when the model has none, and under ALL the model's tags up to a
      permutation; every other [(object, species)] is left alone. *)
  Theorem gen_compute_uspfs_entry_model rp S c (rs : @UG.STree path) nid (L R : tree) tb (lsets : list (node_id * list fam))
      lr ll lrr (ta tb_ : utt) :
    rs_ok S rs -> inv3 rp tb ->
    UG.dict_get nid_eqb lsets nid = Some lr ->
    UG.dict_get nid_eqb lsets (EV.TreeNode_id L) = Some ll ->
    UG.dict_get nid_eqb lsets (EV.TreeNode_id R) = Some lrr ->
    gsem3 tb nid (sid rs) false = default_entry MIN -> gsem3 tb nid (sid rs) true = default_entry MIN ->
    (forall k, In (fst k) (snodes S) -> sub_of nid_eqb tb (EV.TreeNode_id L) k = val (uread ta k)) ->
    (forall k, In (fst k) (snodes S) -> sub_of nid_eqb tb (EV.TreeNode_id R) k = val (uread tb_ k)) ->
    exists tb',
      UG.gen_compute_uspfs_entry N.eqb path_eqb nid_eqb ANC DIST (fun _ => sembed3 S []) lcaobj rs (EV.TreeNode_node nid L R) lsets tb
        (stsocc c) = UG.Ok (tb', tt) /\
      inv3 rp tb' /\
      (forall kind,
         let cellM := ucell S c rp ta tb_ (UG.gset_subset N.eqb lr ll) (UG.gset_subset N.eqb lr lrr) (sid rs) kind in
         val (gsem3 tb' nid (sid rs) kind) = val cellM /\
         (tags (gsem3 tb' nid (sid rs) kind) = [] <-> tags cellM = []) /\
         (rp = RALL -> exists l, tags (gsem3 tb' nid (sid rs) kind) = map tag_ca l /\ Permutation l (tags cellM))) /\
      (forall n x k, (n, x) <> (nid, sid rs) -> gsem3 tb' n x k = gsem3 tb n x k).
  Proof.
    intros Hrs I Dr Dl Drr E0 E1 HA HB.
    destruct (entry_eq rp S c rs (sembed3 S []) nid L R tb lsets lr ll lrr (default_entry MIN) (default_entry MIN) Hrs I Dr Dl Drr E0 E1)
      as [tb' [E [I' [C0 [C1 F]]]]].
    exists tb'. split; [exact E|]. split; [exact I'|]. split; [|exact F].
    intros kind. cbv zeta.
    assert (SIM : esim rp (ucell S c rp ta tb_ (UG.gset_subset N.eqb lr ll) (UG.gset_subset N.eqb lr lrr) (sid rs) kind)
                    (ucell_o S c rp (sub_of nid_eqb tb (EV.TreeNode_id L)) (sub_of nid_eqb tb (EV.TreeNode_id R))
                       (UG.gset_subset N.eqb lr ll) (UG.gset_subset N.eqb lr lrr) (sid rs) kind (sids3 (UG.STree_levelorder (sembed3 S []))))).
    { apply MP.ucell_enum_sim.
      - intros x. symmetry. apply (lev_sameset S).
      - intros k Hk. symmetry. now apply HA.
      - intros k Hk. symmetry. now apply HB. }
    assert (G : gsem3 tb' nid (sid rs) kind =
                emap tag_ca (ucell_o S c rp (sub_of nid_eqb tb (EV.TreeNode_id L)) (sub_of nid_eqb tb (EV.TreeNode_id R))
                       (UG.gset_subset N.eqb lr ll) (UG.gset_subset N.eqb lr lrr) (sid rs) kind (sids3 (UG.STree_levelorder (sembed3 S []))))).
    { destruct kind; [rewrite C1|rewrite C0]; rewrite cell_upd3_default; reflexivity. }
    rewrite G. destruct SIM as [V [T A]]. cbn [emap val tags]. split; [now rewrite V|]. split.
    - split.
      + intros H. apply map_eq_nil in H. now apply T.
      + intros H. apply T in H. now rewrite H.
    - intros ->. eexists. split; [reflexivity|].
      apply NoDup_Permutation; [apply MP.ucell_o_all_nodup|unfold ucell; apply MP.ufirst_write_all_nodup|].
      intros x. symmetry. apply (A eq_refl x).
  Qed.

  (** ** the proxy alias.  The translator renders [child_entry = table[a][b]; .. child_entry[k].value() ..] by evaluating the
      chain [table[a][b]] where the alias is bound and AGAIN, in full, before every [child_entry[k]] (its assumption
      [proxy_alias8]: a proxy is a (table, prefix) pair without state of its own and re-evaluating the chain has no effect).
      On every well-formed three-dimensional table that is the case: the chain leaves the table as it is and returns the
      proxy (current table, [a; b]) -- which is what the Python alias, a reference to the table object plus the prefix,
      denotes at any later time. *)
  Lemma proxy_alias_chain rp (tb : TG.table_state (@UG.key path node_id) ca) k1 k2 : inv3 rp tb ->
    match UG.table_res (TG.gen_table_getitem (UG.key_eqb path_eqb nid_eqb) tb k1) with
    | UG.Err e => UG.Err e
    | UG.Ok (_, p1) =>
        match UG.table_res (TG.gen_Proxy_getitem (UG.key_eqb path_eqb nid_eqb) p1 k2) with
        | UG.Err e => UG.Err e
        | UG.Ok (_, p2) => UG.Ok (TG.Proxy_parent p2, p2)
        end
    end = UG.Ok (tb, TG.Proxy_TableProxy (TG.mk_tproxy tb [k1; k2])).
  Proof.
    intros I. rewrite (EN.rd3_getitem nid_eqb nid_eqb_spec rp tb k1 I), (EN.rd3_sub1 nid_eqb nid_eqb_spec rp tb k1 k2 I). reflexivity.
  Qed.

  (* ================================================================== *)
  (** * STAGE 3: the whole table *)
  Definition table_eq : table_eq_statement nid_eqb lcaobj := TX.gen_compute_uspfs_table_eq nid_eqb nid_eqb_spec lcaobj entry_eq.

  Section Table.
    Variables (S : stree) (c : costs) (leafsp : node_id -> path) (syn : node_id -> list fam) (O : tree).
    Notation ST := (sembed3 S []).
    Notation ot := (otree_of leafsp syn).
    Notation sin := (EV.mk_sin O lcaobj leafsp (stsocc c) syn).

    (** what the theorems say about every cell [(u, s, k)] of a table [tb], [extended] telling the variant *)
    Definition cells_model (extended : bool) (rp : ret) (tb : TG.table_state (@UG.key path node_id) ca) : Prop :=
      forall u, In u (UG.TreeNode_postorder O) -> forall s k,
        let cellM := uread (uspfs_table S c rp extended (ot u) (annotate (ototal (ot O)) (ot u))) (s, k) in
        val (gsem3 tb (EV.TreeNode_id u) s k) = val cellM /\
        (tags (gsem3 tb (EV.TreeNode_id u) s k) = [] <-> tags cellM = []) /\
        (rp = RALL -> exists l, tags (gsem3 tb (EV.TreeNode_id u) s k) = map tag_ca l /\ Permutation l (tags cellM)).

    (** the dictionary of LCA sets holds, for every object node, the members of the model's LCA set *)
    Definition lsets_ok (lsets : list (node_id * list fam)) : Prop :=
      forall v, In v (UG.TreeNode_postorder O) ->
        exists l, UG.dict_get nid_eqb lsets (EV.TreeNode_id v) = Some l /\ sameset l (u_lca (annotate (ototal (ot O)) (ot v))).

    (** [_compute_uspfs_table] with the callback of [usreconcile_extended_uspfs] *)
    Theorem gen_compute_uspfs_table_extended rp lsets :
      nn (c_hgt c) -> NoDup (oids (UG.TreeNode_postorder O)) -> lsets_ok lsets ->
      exists tb,
        UG.gen_compute_uspfs_table N.eqb path_eqb nid_eqb ANC DIST (fun _ => ST) sin lsets
          (fun (species : @UG.STree path) (_ : tree) => UG.STree_postorder species) (prc rp) = UG.Ok tb /\
        inv3 rp tb /\ cells_model true rp tb.
    Proof.
      intros Hh ND HL.
      exact (TF.gen_compute_uspfs_table_extended nid_eqb lcaobj S c leafsp syn O MP.ucell_o_sim table_eq rp lsets Hh ND HL).
    Qed.

    (** [_compute_uspfs_table] with the callback of [usreconcile_base_uspfs]: the species of the LCA mapping, looked up in the
        dictionary [reconcile_lca] returns *)
    Theorem gen_compute_uspfs_table_base rp lsets (d : list (node_id * path)) :
      nn (c_hgt c) -> NoDup (oids (UG.TreeNode_postorder O)) -> TF.leaves_valid S leafsp O -> lsets_ok lsets ->
      (forall u, In u (UG.TreeNode_postorder O) -> UG.dict_get nid_eqb d (EV.TreeNode_id u) = Some (root (lca_rec (ot u)))) ->
      exists tb,
        UG.gen_compute_uspfs_table N.eqb path_eqb nid_eqb ANC DIST (fun _ => ST) sin lsets
          (fun _ obj => UG.base_species path_eqb nid_eqb ST d obj) (prc rp) = UG.Ok tb /\
        inv3 rp tb /\ cells_model false rp tb.
    Proof.
      intros Hh ND Hl HL Hd.
      assert (Hfind : forall u rs, In rs (UG.base_species path_eqb nid_eqb ST d u) ->
                In rs (UG.STree_postorder ST) /\ UG.base_species path_eqb nid_eqb ST d u = [rs]).
      { intros u rs. unfold UG.base_species. destruct (UG.dict_get nid_eqb d (EV.TreeNode_id u)) as [s|]; [|intros []].
        destruct (find _ (UG.STree_postorder ST)) as [n|] eqn:F; [|intros []]. intros [<-|[]].
        split; [|reflexivity]. now apply find_some in F. }
      apply (TF.gen_compute_uspfs_table_model nid_eqb lcaobj S c leafsp syn O MP.ucell_o_sim table_eq false
               (fun _ obj => UG.base_species path_eqb nid_eqb ST d obj) rp lsets Hh ND); [| |exact HL].
      - intros u Hu Hi. split.
        + intros rs H. apply post_rs_ok. now apply Hfind in H.
        + destruct (UG.base_species path_eqb nid_eqb ST d u) as [|rs l] eqn:E; [constructor|].
          destruct (Hfind u rs) as [_ E']; [rewrite E; now left|]. rewrite E in E'. inversion E'. subst. cbn. constructor; [intros []|constructor].
      - intros u Hu Hi. unfold uallowed. unfold UG.base_species. rewrite (Hd u Hu).
        assert (Hv : In (root (lca_rec (ot u))) (sids3 (UG.STree_postorder ST))).
        { apply (post_sameset S). apply snodes_valid.
          apply (valid_rec_root_valid S (ot u)). apply lca_valid. apply (TF.leaves_ok_sub S leafsp syn O u Hl Hu). }
        unfold sids3 in Hv. apply in_map_iff in Hv as [rs [Ers Hrs]].
        destruct (find (fun n => path_eqb (UG.STree_id n) (root (lca_rec (ot u)))) (UG.STree_postorder ST)) as [n|] eqn:F.
        + apply find_some in F as [_ Fn]. destruct (path_eqb_spec (UG.STree_id n) (root (lca_rec (ot u)))) as [En|]; [|discriminate].
          unfold sids3. cbn [map]. rewrite En. intros y. reflexivity.
        + exfalso. apply (find_none _ _ F) in Hrs. rewrite Ers in Hrs.
          destruct (path_eqb_spec (root (lca_rec (ot u))) (root (lca_rec (ot u)))); [discriminate|congruence].
    Qed.

    (** ** stages 1 and 3 together: the LCA sets the generated stage-1 functions compute satisfy [lsets_ok] *)
    Section WithStage1.
      Context {olca : Type}.
      Variables (olca_of : tree -> olca) (olca_call : olca -> list node_id -> node_id)
                (syn_items : (node_id -> list fam) -> list (node_id * list fam)) (node_order : list node_id -> list node_id).
      Hypothesis ND : NoDup (oids (UG.TreeNode_postorder O)).
      Hypothesis Holca : S1.olca_ok olca_of olca_call O.
      Hypothesis Hord : S1.order_ok node_order.
      Hypothesis Hitems : S1.items_ok syn_items O syn.

      Theorem gen_lca_sets_ok :
        exists g r,
          UG.gen_compute_gain_sets N.eqb nid_eqb olca_of olca_call syn_items node_order sin = UG.Ok g /\
          UG.gen_compute_lca_sets N.eqb nid_eqb sin g = UG.Ok r /\ lsets_ok r /\
          (forall v, In v (UG.TreeNode_postorder O) ->
             exists l, UG.dict_get nid_eqb g (EV.TreeNode_id v) = Some l /\ sameset l (u_gain (annotate (ototal (ot O)) (ot v)))).
      Proof.
        destruct (S1.gain_lca_sets_code nid_eqb nid_eqb_spec olca_of olca_call syn_items node_order O lcaobj leafsp (stsocc c) syn
                    ND Holca Hord Hitems) as [g [r [Eg [Er H]]]].
        exists g, r. split; [exact Eg|]. split; [exact Er|].
        assert (B : forall v, In v (UG.TreeNode_postorder O) -> exists p, S1.nsub O p = Some v /\
                      usub (annotate_top (ot O)) p = Some (annotate (ototal (ot O)) (ot v))).
        { intros v Hv. destruct (S1.post_nsub O v Hv) as [p Hp]. exists p. split; [exact Hp|].
          unfold annotate_top. apply usub_annotate. now apply S1.osub_ot_some. }
        split.
        - intros v Hv. destruct (B v Hv) as [p [Hp Hu]].
          destruct (H p v Hp) as [lg [ll [ua [_ [Dl [Hu' [_ [_ [_ [Hll _]]]]]]]]]].
          rewrite Hu in Hu'. inversion Hu'; subst ua. exists ll. split; [exact Dl|]. exact Hll.
        - intros v Hv. destruct (B v Hv) as [p [Hp Hu]].
          destruct (H p v Hp) as [lg [ll [ua [Dg [_ [Hu' [_ [_ [Hlg _]]]]]]]]].
          rewrite Hu in Hu'. inversion Hu'; subst ua. exists lg. split; [exact Dg|]. exact Hlg.
      Qed.

      (** the table [_uspfs] builds for the extended variant, from the LCA sets it computes *)
      Theorem gen_stage13_extended rp : nn (c_hgt c) ->
        exists g r tb,
          UG.gen_compute_gain_sets N.eqb nid_eqb olca_of olca_call syn_items node_order sin = UG.Ok g /\
          UG.gen_compute_lca_sets N.eqb nid_eqb sin g = UG.Ok r /\
          UG.gen_compute_uspfs_table N.eqb path_eqb nid_eqb ANC DIST (fun _ => ST) sin r
            (fun (species : @UG.STree path) (_ : tree) => UG.STree_postorder species) (prc rp) = UG.Ok tb /\
          inv3 rp tb /\ cells_model true rp tb.
      Proof.
        intros Hh. destruct gen_lca_sets_ok as [g [r [Eg [Er [HL _]]]]].
        destruct (gen_compute_uspfs_table_extended rp r Hh ND HL) as [tb [Et [I Cm]]].
        exists g, r, tb. auto.
      Qed.
    End WithStage1.
  End Table.
End Main.

(** * Non-vacuity of the STAGE 2 theorem: a table in which the two leaves of an object node are done and the node itself is not
    (built by the generated table function with a callback that allows no species), on which the generated
    [_compute_uspfs_entry] is run: the hypotheses of [gen_compute_uspfs_entry_model] hold, and the generated code evaluated *)
Module ExampleEntry.
  Definition S1 : stree := SNode SLeaf (SNode SLeaf SLeaf).
  Definition c1 : costs := {| c_spe := 0; c_dup := 1; c_hgt := Fin 1; c_floss := 1; c_sloss := 1 |}.
  Definition O2 : EV.TreeNode nat := EV.TreeNode_node 5%nat (EV.TreeNode_leaf 1%nat) (EV.TreeNode_leaf 2%nat).
  Definition leafsp2 (i : nat) : path := match i with 1%nat => [false] | _ => [true; false] end.
  Definition syn2 (i : nat) : list fam := match i with 1%nat => [1; 2]%N | _ => [1]%N end.
  Definition lsets2 : list (nat * list fam) := [(5%nat, [1]%N); (1%nat, [2; 1]%N); (2%nat, [1]%N)].
  Definition none_cb (_ : @UG.STree path) (_ : EV.TreeNode nat) : list (@UG.STree path) := [].
  Definition tb0 (rp : ret) :=
    UG.gen_compute_uspfs_table N.eqb path_eqb Nat.eqb (fun _ : unit => anc) (fun _ => dist) (fun _ => sembed3 S1 [])
      (EV.mk_sin O2 tt leafsp2 (stsocc c1) syn2) lsets2 none_cb (prc rp).
  Definition entry0 (tb : TG.table_state (@UG.key path nat) ca) :=
    UG.gen_compute_uspfs_entry N.eqb path_eqb Nat.eqb (fun _ : unit => anc) (fun _ => dist) (fun _ => sembed3 S1 []) tt (sembed3 S1 [])
      O2 lsets2 tb (stsocc c1).
  Definition cellM (rp : ret) (kind : bool) : entry utag :=
    ucell S1 c1 rp (UTLeaf [false]) (UTLeaf [true; false]) (UG.gset_subset N.eqb [1]%N [2; 1]%N) (UG.gset_subset N.eqb [1]%N [1]%N) [] kind.

  Example entry_instance rp : exists tb tb',
    tb0 rp = UG.Ok tb /\ entry0 tb = UG.Ok (tb', tt) /\
    forall kind, val (gsem3 Nat.eqb tb' 5%nat [] kind) = val (cellM rp kind) /\
                 (tags (gsem3 Nat.eqb tb' 5%nat [] kind) = [] <-> tags (cellM rp kind) = []).
  Proof.
    destruct (table_eq Nat.eqb Nat.eqb_spec tt rp S1 c1 (sembed3 S1 []) leafsp2 syn2 O2 none_cb lsets2
                (fun i => match UG.dict_get Nat.eqb lsets2 i with Some l => l | None => [] end)) as [tb [E [I [Hc _]]]].
    - cbn. repeat constructor; cbn; intuition discriminate.
    - intros u _ _. split; [intros rs []|constructor].
    - intros u Hu. cbn in Hu. destruct Hu as [<-|[<-|[<-|[]]]]; reflexivity.
    - exists tb.
      destruct (gen_compute_uspfs_entry_model Nat.eqb Nat.eqb_spec tt rp S1 c1 (sembed3 S1 []) 5%nat (EV.TreeNode_leaf 1%nat)
                  (EV.TreeNode_leaf 2%nat) tb lsets2 [1]%N [2; 1]%N [1]%N (UTLeaf [false]) (UTLeaf [true; false]))
        as [tb' [E' [_ [Hk _]]]].
      + exact (sub_rs_ok S1 [] S1 eq_refl).
      + exact I.
      + reflexivity.
      + reflexivity.
      + reflexivity.
      + rewrite (Hc O2) by (cbn; tauto). reflexivity.
      + rewrite (Hc O2) by (cbn; tauto). reflexivity.
      + intros k _. unfold sub_of. rewrite (Hc (EV.TreeNode_leaf 1%nat)) by (cbn; tauto). destruct k as [s k]. reflexivity.
      + intros k _. unfold sub_of. rewrite (Hc (EV.TreeNode_leaf 2%nat)) by (cbn; tauto). destruct k as [s k]. reflexivity.
      + exists tb'. split; [exact E|]. split; [exact E'|]. intros kind. destruct (Hk kind) as [V [T _]]. split; [exact V|exact T].
  Qed.

  (** the generated code, run: both cells of the node at the root species have the model's value and number of tags *)
  Example run_all :
    match tb0 RALL with
    | UG.Ok tb =>
        match entry0 tb with
        | UG.Ok (tb', _) =>
            forallb (fun kind => ext_eqb (val (gsem3 Nat.eqb tb' 5%nat [] kind)) (val (cellM RALL kind))
                                 && Nat.eqb (length (tags (gsem3 Nat.eqb tb' 5%nat [] kind))) (length (tags (cellM RALL kind))))
                    [false; true]
            && negb (ext_is_inf (val (gsem3 Nat.eqb tb' 5%nat [] false)))
        | UG.Err _ => false
        end
    | UG.Err _ => false
    end = true.
  Proof. vm_compute. reflexivity. Qed.
End ExampleEntry.

Print Assumptions gen_compute_uspfs_entry_model.
Print Assumptions proxy_alias_chain.
Print Assumptions gen_compute_uspfs_table_extended.
Print Assumptions gen_compute_uspfs_table_base.
Print Assumptions gen_lca_sets_ok.
Print Assumptions gen_stage13_extended.
Print Assumptions ExampleEntry.entry_instance.
Print Assumptions ExampleEntry.run_all.
End UspfsGenMain.
