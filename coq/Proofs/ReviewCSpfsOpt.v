(** review C, item 11: generated ordered solvers = exactly the minimum-cost valid ordered solutions, stage 1 composed *)
From Coq Require Import List Bool Arith ZArith NArith Lia Permutation.
From SR Require Import Base.PathB Base.Ext Model.Subseq Model.Entry Model.Recon Model.LcaRec Model.Thl Model.Spfs Model.Uspfs
  Proofs.SubseqProofs Proofs.PathFacts Proofs.ReconProofs Proofs.LabelCostProofs Proofs.ThlProofs
  Proofs.SpfsProofs Proofs.SpfsFinal Proofs.UspfsProofs Proofs.UspfsFinal Proofs.AllAnyProofs.
From SR Require Gen.SpfsGen Proofs.SpfsGenProofs
  Proofs.EvalGenProofs Proofs.EntryGenProofs.
Import ListNotations.
Local Open Scope Z_scope.
(** * B (review item 11), C02: the generated ordered solvers return exactly the minimum-cost valid ordered solutions *)
Module PartB_C02.
Import SR.Gen.SpfsGen SR.Proofs.SpfsGenProofs.
Import SR.Proofs.EntryGenProofs SR.Proofs.EvalGenProofs.

Section C02.
  Context {lca node_id : Type} (nid_eqb : node_id -> node_id -> bool).
  Hypothesis nid_eqb_spec : forall a b, reflect (a = b) (nid_eqb a b).
  Notation tree := (EV.TreeNode node_id).
  Notation spout := (@SG.spout_state fam path lca node_id).
  Variables (lcaobj : lca) (S : stree) (c : costs) (leafsp : node_id -> path) (syn : node_id -> list fam) (O : tree).
  Variables (missing : node_id -> path) (missing_syn : node_id -> list fam) (ord_infos : list ca -> list ca).
  Variable oeqb : spout -> spout -> bool.
  Variables (syn_mem : (node_id -> list fam) -> node_id -> bool) (syn_items : (node_id -> list fam) -> list (fam * list fam))
            (set_order : list fam -> list fam) (graph_of_prec : list (fam * list fam) -> list (fam * list fam))
            (find_cycle_fn : list (fam * list fam) -> list fam).
  Notation ST := (sembed3 S []).
  Notation OT := (otree_of leafsp syn).
  Notation sin := (EV.mk_sin O lcaobj leafsp (stsocc c) syn).
  Notation DIST := (fun (_ : lca) => dist).
  Notation ANC := (fun (_ : lca) => anc).
  Notation SANC := (fun (_ : lca) => sanc).
  Notation COMP := (fun (_ : lca) => comparable).
  Notation LCP := (fun (_ : lca) => lcp).
  Notation LT := (lt_out nid_eqb O missing missing_syn).
  Notation WW := (W nid_eqb S c leafsp syn O missing missing_syn ord_infos oeqb).
  Notation GEN_EXT := (SG.gen_sreconcile_extended_spfs fam_eqb path_eqb nid_eqb ANC LCP DIST (fun _ => ST) SANC COMP oeqb missing missing_syn
                         ord_infos syn_mem syn_items set_order graph_of_prec find_cycle_fn sin (prc RALL)).
  Notation GEN_BASE := (SG.gen_sreconcile_base_spfs fam_eqb path_eqb nid_eqb ANC LCP DIST (fun _ => ST) SANC COMP oeqb missing missing_syn
                         ord_infos syn_mem syn_items set_order graph_of_prec find_cycle_fn sin (prc RALL)).

  (** the specifications (those of [C02_ext_spfs_optimum] / [C02_base_spfs_optimum]), over a predicate [ok] on root orders *)
  Definition ext_min (ok : list fam -> Prop) (lt : ltree) : Prop :=
    (exists ord, ok ord /\ valid_ordered S ord (OT O) lt) /\
    forall lt' ord', ok ord' -> valid_ordered S ord' (OT O) lt' -> ele (cost_of c (OT O) lt) (cost_of c (OT O) lt').
  Definition base_min (ok : list fam -> Prop) (lt : ltree) : Prop :=
    (exists ord, ok ord /\ valid_ordered S ord (OT O) lt /\ forget lt = lca_rec (OT O)) /\
    forall lt' ord', ok ord' -> valid_ordered S ord' (OT O) lt' -> forget lt' = lca_rec (OT O) ->
      ele (cost_of c (OT O) lt) (cost_of c (OT O) lt').

  Lemma finish (R : SG.res (list spout)) e :
    (exists outs, R = SG.Ok outs /\ Permutation (map LT outs) (tags e) /\ (outs = [] <-> tags e = [])) ->
    NoDup (tags e) -> forall P : ltree -> Prop, (forall t, In t (tags e) <-> P t) ->
    exists outs, R = SG.Ok outs /\ (outs = [] <-> tags e = []) /\ NoDup (map LT outs) /\ forall t, In t (map LT outs) <-> P t.
  Proof.
    intros [outs [Eo [Pm Em]]] ND P Ex. exists outs. split; [exact Eo|]. split; [exact Em|]. split.
    - eapply Permutation_NoDup; [apply Permutation_sym; exact Pm|exact ND].
    - intros t. rewrite <- Ex. split; intros H; [eapply Permutation_in; [exact Pm|exact H]|
        eapply Permutation_in; [apply Permutation_sym; exact Pm|exact H]].
  Qed.

  Lemma all_nodup extended orders e : spfs S c RALL extended orders (OT O) = Some e -> NoDup (tags e).
  Proof. exact (spfs_all_nodup S c extended orders (OT O) e). Qed.

  (** ** version 1: any root orders the code considers (a prescribed root synteny included), [orders_ok] assumed.
      The premise [spfs_orders .. orders] says that STAGE 1 of the code ([_make_prec_graph] + [toposort_all], or the
      prescribed root synteny) produced [orders]; that these are well-formed ([orders_ok]: duplicate-free, every leaf
      synteny a non-empty subsequence, leaves at species of [S]) is an EXPLICIT EXTRA HYPOTHESIS here; version 2 below
      derives it through Stage 1 when no root synteny is prescribed *)
  Theorem c02_gen_extended_optimum_orders orders : WW -> coherent_ord c ->
    spfs_orders syn O syn_mem syn_items set_order graph_of_prec orders -> orders_ok S (OT O) orders ->
    exists outs, GEN_EXT = SG.Ok outs /\ NoDup (map LT outs) /\
      forall lt, In lt (map LT outs) <-> ext_min (fun ord => In ord orders) lt.
  Proof.
    intros HW Hc Ho HO. pose proof HW as [Hh _].
    destruct (spfs_returns S c RALL true orders (OT O) Hh HO) as [e He].
    pose proof (gen_sreconcile_extended_spfs_model nid_eqb nid_eqb_spec lcaobj S c leafsp syn O missing missing_syn ord_infos oeqb
                  syn_mem syn_items set_order graph_of_prec find_cycle_fn orders HW Ho) as M.
    rewrite He in M.
    destruct (finish _ e M (all_nodup true orders e He) _ (ext_spfs_optimum S c orders (OT O) e Hh Hc HO He)) as [outs [E1 [_ [E2 E3]]]].
    exists outs. auto.
  Qed.

  Theorem c02_gen_base_optimum_orders orders : WW -> coherent_ord c ->
    spfs_orders syn O syn_mem syn_items set_order graph_of_prec orders -> orders_ok S (OT O) orders ->
    exists outs, GEN_BASE = SG.Ok outs /\ NoDup (map LT outs) /\
      forall lt, In lt (map LT outs) <-> base_min (fun ord => In ord orders) lt.
  Proof.
    intros HW Hc Ho HO. pose proof HW as [Hh _].
    destruct (spfs_returns S c RALL false orders (OT O) Hh HO) as [e He].
    pose proof (gen_sreconcile_base_spfs_model nid_eqb nid_eqb_spec lcaobj S c leafsp syn O missing missing_syn ord_infos oeqb
                  syn_mem syn_items set_order graph_of_prec find_cycle_fn orders HW Ho) as M.
    rewrite He in M.
    destruct (finish _ e M (all_nodup false orders e He) _ (base_spfs_optimum S c orders (OT O) e Hh Hc HO He)) as [outs [E1 [_ [E2 E3]]]].
    exists outs. auto.
  Qed.

  (** ** version 2: no prescribed root synteny; STAGE 1 composed ([gen_root_orders_spec_perm], [prec_rename_N],
      [toposort_all_rename], [root_orders_ok], [root_orders_spec]): the root orders are the COMPATIBLE orders of the
      leaf syntenies, the code does not fail in stage 1, and the result is empty exactly when no order is compatible.
      Hypotheses on the untranslated parts: the root has no entry in [leaf_syntenies] ([syn_mem]); the values of the items
      of [leaf_syntenies] are the syntenies of the leaves in some order; sets are iterated in some order ([set_order],
      and [graph_of_prec] gives each successor set an order [sord]); every leaf synteny is non-empty ([leaves_wf]) *)
  Definition stage1_hyps : Prop :=
    syn_mem syn (EV.TreeNode_id O) = false /\
    Permutation (map snd (syn_items syn)) (leaf_syns (OT O)) /\
    (forall l, Permutation (set_order l) l) /\
    (exists sord : list fam -> list fam, (forall l, Permutation (sord l) l) /\
       forall g, graph_of_prec g = map (fun kv => (fst kv, sord (snd kv))) g) /\
    leaves_wf S (OT O).

  Lemma map_of_to (l : list N) : map N.of_nat (map N.to_nat l) = l.
  Proof. rewrite map_map. rewrite <- (map_id l) at 2. apply map_ext. intros x. apply N2Nat.id. Qed.
  Lemma map_to_of (l : list nat) : map N.to_nat (map N.of_nat l) = l.
  Proof. rewrite map_map. rewrite <- (map_id l) at 2. apply map_ext. intros x. apply Nat2N.id. Qed.

  Lemma stage1_orders : stage1_hyps ->
    exists orders ro, spfs_orders syn O syn_mem syn_items set_order graph_of_prec orders /\
      root_orders (OT O) = Some ro /\ Permutation orders ro.
  Proof.
    intros [Hmem [Hit [Hso [[sord [Hsord Hgp]] Hwf]]]].
    set (rnN := fun kv : nat * list nat => (N.of_nat (fst kv), map N.of_nat (snd kv))).
    set (items := map (fun kv : fam * list fam => (N.to_nat (fst kv), map N.to_nat (snd kv))) (syn_items syn)).
    set (ordA := fun l : list nat => map N.to_nat (set_order (map N.of_nat l))).
    set (sordA := fun l : list nat => map N.to_nat (sord (map N.of_nat l))).
    assert (Eit : map rnN items = syn_items syn).
    { unfold items. rewrite map_map. rewrite <- (map_id (syn_items syn)) at 2. apply map_ext. intros [k v]. unfold rnN. cbn [fst snd].
      now rewrite N2Nat.id, map_of_to. }
    assert (HordA : ToposortProofs.set_order ordA).
    { intros l. unfold ordA. rewrite <- (map_to_of l) at 2. apply Permutation_map. apply Hso. }
    assert (HsordA : ToposortProofs.set_order sordA).
    { intros l. unfold sordA. rewrite <- (map_to_of l) at 2. apply Permutation_map. apply Hsord. }
    assert (Hit' : Permutation (map snd items) (map (map N.to_nat) (leaf_syns (OT O)))).
    { unfold items. rewrite map_map. cbn [snd]. rewrite <- (map_map snd (map N.to_nat)). now apply Permutation_map. }
    assert (Hne : forall s : list fam, In s (leaf_syns (OT O)) -> s <> []).
    { clear - Hwf. induction (OT O) as [sp y|a IHa b IHb]; cbn [leaf_syns leaves_wf] in *.
      - intros s [<-|[]]. tauto.
      - intros s Hs. apply in_app_or in Hs as [Hs|Hs]; [apply IHa|apply IHb]; tauto. }
    destruct (Stage1.gen_root_orders_spec_perm (OT O) ordA sordA items HordA HsordA Hit' Hne) as [g [R [ro [Eg [ER [Ero Pr]]]]]].
    exists (map (map N.of_nat) R), ro. split; [|split; [exact Ero|exact Pr]].
    unfold spfs_orders. rewrite Hmem. exists (map rnN g). split.
    - unfold SG.gen_make_prec_graph_syn. rewrite <- Eit.
      pose proof (Rename.prec_rename_N items) as PR. fold rnN in PR.
      rewrite Eg in PR. cbn [Rename.pmap] in PR.
      change (SG.prec_res (Stage1.P.gen_make_prec_graph N.eqb (map rnN items)) = SG.Ok (map rnN g)).
      rewrite PR. reflexivity.
    - unfold SG.gen_toposort_all_prec. rewrite Hgp.
      assert (Egr : map (fun kv : fam * list fam => (fst kv, sord (snd kv))) (map rnN g)
                    = map (fun kv : nat * list nat => (N.of_nat (fst kv), map N.of_nat (snd kv))) (Stage1.reorder sordA g)).
      { unfold Stage1.reorder. rewrite !map_map. apply map_ext. intros [k ss]. unfold rnN, sordA. cbn [fst snd].
        now rewrite map_of_to. }
      rewrite Egr.
      assert (Hc : forall l : list nat, set_order (map N.of_nat l) = map N.of_nat (ordA l)).
      { intros l. unfold ordA. now rewrite map_of_to. }
      pose proof (Rename.toposort_all_rename Nat.eqb N.eqb N.of_nat Rename.N_of_nat_eqb ordA set_order Hc (Stage1.reorder sordA g)) as TR.
      rewrite ER in TR. cbn [Rename.gmap] in TR.
      change (SG.toposort_res (ToposortGenProofs.G.gen_toposort_all N.eqb set_order
                (map (fun kv : nat * list nat => (N.of_nat (fst kv), map N.of_nat (snd kv))) (Stage1.reorder sordA g)))
              = SG.Ok (map (map N.of_nat) R)).
      rewrite TR. reflexivity.
  Qed.

  Lemma stage1_facts : stage1_hyps ->
    exists orders, spfs_orders syn O syn_mem syn_items set_order graph_of_prec orders /\
      orders_ok S (OT O) orders /\ (forall ord, In ord orders -> root_fits (OT O) ord) /\
      forall ord, In ord orders <-> compatible_order (OT O) ord.
  Proof.
    intros H. destruct (stage1_orders H) as [orders [ro [Ho [Ero Pr]]]]. destruct H as [_ [_ [_ [_ Hwf]]]].
    destruct (root_orders_ok S (OT O) ro Hwf Ero) as [HO HF].
    exists orders. split; [exact Ho|]. split; [|split].
    - intros ord Hi. apply HO. eapply Permutation_in; eauto.
    - intros ord Hi. apply HF. eapply Permutation_in; eauto.
    - intros ord. rewrite <- (root_orders_spec (OT O) ro Ero ord). split; intros Hi.
      + eapply Permutation_in; eauto.
      + eapply Permutation_in; [apply Permutation_sym|]; eauto.
  Qed.

  Lemma ext_min_iff (ok ok' : list fam -> Prop) lt : (forall o, ok o <-> ok' o) -> ext_min ok lt <-> ext_min ok' lt.
  Proof.
    intros H. unfold ext_min. split; intros [[ord [H1 H2]] H3]; (split; [exists ord; split; [now apply H|exact H2]|]);
      intros lt' ord' Ho; apply H3; now apply H.
  Qed.
  Lemma base_min_iff (ok ok' : list fam -> Prop) lt : (forall o, ok o <-> ok' o) -> base_min ok lt <-> base_min ok' lt.
  Proof.
    intros H. unfold base_min. split; intros [[ord [H1 H2]] H3]; (split; [exists ord; split; [now apply H|exact H2]|]);
      intros lt' ord' Ho; apply H3; now apply H.
  Qed.

  (** [sreconcile_extended_spfs], generated code, ALL policy, root synteny not prescribed: the call succeeds; its outputs read
      as labelled trees are, without repetition, exactly the valid ordered solutions (root synteny = a compatible order of the
      leaf syntenies) of minimum cost over all compatible orders, species mappings and labellings; none exactly when no
      order is compatible *)
  Theorem c02_gen_extended_optimum : WW -> coherent_ord c -> stage1_hyps ->
    exists outs, GEN_EXT = SG.Ok outs /\ NoDup (map LT outs) /\
      (forall lt, In lt (map LT outs) <-> ext_min (compatible_order (OT O)) lt) /\
      (outs = [] <-> forall ord, ~ compatible_order (OT O) ord).
  Proof.
    intros HW Hc H1. pose proof HW as [Hh _]. destruct (stage1_facts H1) as [orders [Ho [HO [HF Hco]]]].
    destruct (spfs_returns S c RALL true orders (OT O) Hh HO) as [e He].
    pose proof (gen_sreconcile_extended_spfs_model nid_eqb nid_eqb_spec lcaobj S c leafsp syn O missing missing_syn ord_infos oeqb
                  syn_mem syn_items set_order graph_of_prec find_cycle_fn orders HW Ho) as M.
    rewrite He in M.
    destruct (finish _ e M (all_nodup true orders e He) _ (ext_spfs_optimum S c orders (OT O) e Hh Hc HO He)) as [outs [E1 [Em [E2 E3]]]].
    exists outs. split; [exact E1|]. split; [exact E2|]. split.
    - intros lt. rewrite (E3 lt). apply ext_min_iff. exact Hco.
    - rewrite Em, (spfs_empty_iff S c RALL true orders (OT O) e Hh HO ltac:(discriminate) HF He). split.
      + intros -> ord Hx. apply Hco in Hx. destruct Hx.
      + intros Hn. destruct orders as [|o l]; [reflexivity|]. exfalso. apply (Hn o). apply Hco. now left.
  Qed.

  Theorem c02_gen_base_optimum : WW -> coherent_ord c -> stage1_hyps ->
    exists outs, GEN_BASE = SG.Ok outs /\ NoDup (map LT outs) /\
      (forall lt, In lt (map LT outs) <-> base_min (compatible_order (OT O)) lt) /\
      (outs = [] <-> forall ord, ~ compatible_order (OT O) ord).
  Proof.
    intros HW Hc H1. pose proof HW as [Hh _]. destruct (stage1_facts H1) as [orders [Ho [HO [HF Hco]]]].
    destruct (spfs_returns S c RALL false orders (OT O) Hh HO) as [e He].
    pose proof (gen_sreconcile_base_spfs_model nid_eqb nid_eqb_spec lcaobj S c leafsp syn O missing missing_syn ord_infos oeqb
                  syn_mem syn_items set_order graph_of_prec find_cycle_fn orders HW Ho) as M.
    rewrite He in M.
    destruct (finish _ e M (all_nodup false orders e He) _ (base_spfs_optimum S c orders (OT O) e Hh Hc HO He)) as [outs [E1 [Em [E2 E3]]]].
    exists outs. split; [exact E1|]. split; [exact E2|]. split.
    - intros lt. rewrite (E3 lt). apply base_min_iff. exact Hco.
    - rewrite Em, (spfs_empty_iff S c RALL false orders (OT O) e Hh HO ltac:(discriminate) HF He). split.
      + intros -> ord Hx. apply Hco in Hx. destruct Hx.
      + intros Hn. destruct orders as [|o l]; [reflexivity|]. exfalso. apply (Hn o). apply Hco. now left.
  Qed.
End C02.
Print Assumptions c02_gen_extended_optimum_orders.
Print Assumptions c02_gen_base_optimum_orders.
Print Assumptions stage1_orders.
Print Assumptions c02_gen_extended_optimum.
Print Assumptions c02_gen_base_optimum.

(* the hypotheses are satisfiable: the instance of [SpfsLink.Ex] (two leaves with syntenies [1;2] and [2;3]) *)
Example c02_hyps_satisfiable :
  (W Nat.eqb Ex.S0 Ex.c0 Ex.leafsp0 Ex.syn0 Ex.O0 Ex.miss0 Ex.msyn0 Ex.ord0 Ex.oeqb0) /\ (coherent_ord Ex.c0) /\
  (stage1_hyps Ex.S0 Ex.leafsp0 Ex.syn0 Ex.O0 Ex.syn_mem0 Ex.syn_items0 Ex.set_order0 Ex.graph0).
Proof.
  split; [exact Ex.W_satisfiable|]. split; [vm_compute; repeat split; discriminate|].
  unfold stage1_hyps. split; [reflexivity|]. split; [vm_compute; apply Permutation_refl|].
  split; [intros l; apply Permutation_refl|]. split.
  - exists (fun l => l). split; [intros l; apply Permutation_refl|]. intros g. unfold Ex.graph0.
    rewrite <- (map_id g) at 1. apply map_ext. intros [k v]. reflexivity.
  - cbn. repeat split; discriminate.
Qed.
Print Assumptions c02_hyps_satisfiable.

End PartB_C02.
