(** C15, end to end: the text assembled from the output of [render_full] (Model/Tikz.v) is
    brace-balanced line by line, its picture statements end with a semicolon, and it consists of
    the definitions, the colour definitions and exactly one tikzpicture environment.

    [render_full] returns, per output line, the template number, the colour index and the text
    (label / HTML colour / layer name); coordinates and drawing parameters are not modelled.
    [oline_text] below instantiates the generated template of a line with these values and with
    the coordinates / parameters taken, in order, from an arbitrary list [free]; the theorems hold
    for every choice of brace-free coordinates and parameters. *)
From Coq Require Import String Ascii List Bool Arith Lia DecimalString.
From SR Require Import Model.Escape Model.Wrap Model.Colour Model.Tikz Gen.TikzTemplates.
From SR Require Import Proofs.EscapeProofs Proofs.WrapProofs Proofs.ColourProofs Proofs.TikzProofs.
Import ListNotations.

(** * Occurrences of a word in a text *)

(** [p] is a prefix of [s] *)
Fixpoint starts (p s : str) : bool :=
  match p, s with
  | [], _ => true
  | x :: p', y :: s' => Ascii.eqb y x && starts p' s'
  | _ :: _, [] => false
  end.

(** number of positions of [s] at which [p] occurs *)
Fixpoint occ (p s : str) : nat :=
  match s with
  | [] => 0
  | _ :: r => (if starts p s then 1 else 0) + occ p r
  end.

(** the same count by a left-to-right automaton whose state is the number of characters of [p]
    matched so far; correct for a word whose first character does not occur again in it
    ([dhits_occ_begin], [dhits_occ_end] below) *)
Definition dstep (p : str) (k : nat) (c : ascii) : nat * nat :=
  match nth_error p k with
  | Some x =>
      if Ascii.eqb c x then (if Nat.eqb (S k) (length p) then (0, 1) else (S k, 0))
      else match p with
           | c0 :: _ => if Ascii.eqb c c0 then (1, 0) else (0, 0)
           | [] => (0, 0)
           end
  | None => (0, 0)
  end.

Fixpoint dstate (p : str) (k : nat) (s : str) : nat :=
  match s with [] => k | c :: r => dstate p (fst (dstep p k c)) r end.

Fixpoint dhits (p : str) (k : nat) (s : str) : nat :=
  match s with [] => 0 | c :: r => snd (dstep p k c) + dhits p (fst (dstep p k c)) r end.

Definition pat_begin : str := ["\"; "b"; "e"; "g"; "i"; "n"; "{"]%char.
Definition pat_end : str := ["\"; "e"; "n"; "d"; "{"]%char.

Lemma pat_begin_los : pat_begin = list_ascii_of_string "\begin{". Proof. reflexivity. Qed.
Lemma pat_end_los : pat_end = list_ascii_of_string "\end{". Proof. reflexivity. Qed.

Ltac split_chars c :=
  repeat match goal with
         | |- context [Ascii.eqb c ?x] => destruct (Ascii.eqb_spec c x); [subst c |]; simpl
         end.

Lemma dstep_occ_begin : forall k c r, k < 7 ->
  occ pat_begin (firstn k pat_begin ++ c :: r)
  = snd (dstep pat_begin k c) + occ pat_begin (firstn (fst (dstep pat_begin k c)) pat_begin ++ r).
Proof.
  intros k c r Hk.
  destruct k as [| [| [| [| [| [| [| k]]]]]]]; [| | | | | | | lia];
    unfold dstep; simpl; split_chars c; try reflexivity; try congruence.
Qed.

Lemma dstep_occ_end : forall k c r, k < 5 ->
  occ pat_end (firstn k pat_end ++ c :: r)
  = snd (dstep pat_end k c) + occ pat_end (firstn (fst (dstep pat_end k c)) pat_end ++ r).
Proof.
  intros k c r Hk.
  destruct k as [| [| [| [| [| k]]]]]; [| | | | | lia];
    unfold dstep; simpl; split_chars c; try reflexivity; try congruence.
Qed.

Lemma dstep_lt : forall p k c, 2 <= length p -> k < length p -> fst (dstep p k c) < length p.
Proof.
  intros p k c Hp Hk. unfold dstep. destruct (nth_error p k) as [x |]; [| simpl; lia].
  destruct (Ascii.eqb c x).
  - destruct (Nat.eqb_spec (S k) (length p)); simpl; lia.
  - destruct p as [| c0 p]; [simpl in Hp; lia |]. destruct (Ascii.eqb c c0); simpl; simpl in Hp; lia.
Qed.

Lemma dhits_cons : forall p k c r,
  dhits p k (c :: r) = snd (dstep p k c) + dhits p (fst (dstep p k c)) r.
Proof. reflexivity. Qed.

Lemma dhits_occ_begin_from : forall s k, k < 7 ->
  dhits pat_begin k s = occ pat_begin (firstn k pat_begin ++ s).
Proof.
  induction s as [| c r IH]; intros k Hk.
  - rewrite app_nil_r. destruct k as [| [| [| [| [| [| [| k]]]]]]]; [| | | | | | | lia]; reflexivity.
  - rewrite dhits_cons, IH by (apply (dstep_lt pat_begin k c); simpl; lia).
    symmetry. apply dstep_occ_begin. exact Hk.
Qed.

Lemma dhits_occ_end_from : forall s k, k < 5 ->
  dhits pat_end k s = occ pat_end (firstn k pat_end ++ s).
Proof.
  induction s as [| c r IH]; intros k Hk.
  - rewrite app_nil_r. destruct k as [| [| [| [| [| k]]]]]; [| | | | | lia]; reflexivity.
  - rewrite dhits_cons, IH by (apply (dstep_lt pat_end k c); simpl; lia).
    symmetry. apply dstep_occ_end. exact Hk.
Qed.

(** the automaton counts the occurrences *)
Theorem dhits_occ_begin : forall s, dhits pat_begin 0 s = occ pat_begin s.
Proof. intro s. apply (dhits_occ_begin_from s 0). lia. Qed.

Theorem dhits_occ_end : forall s, dhits pat_end 0 s = occ pat_end s.
Proof. intro s. apply (dhits_occ_end_from s 0). lia. Qed.

(** * Texts that never complete an occurrence, whatever was read before *)
Definition pat_ok (p : str) : Prop :=
  2 <= length p /\ ~ In nl p /\ forall k x, nth_error p k = Some x -> S k = length p -> x = lbrace.

Lemma pat_begin_ok : pat_ok pat_begin.
Proof.
  split; [simpl; lia |]. split.
  - simpl. intros H. repeat (destruct H as [H | H]; [discriminate H |]). exact H.
  - intros k x H E. simpl in E. injection E as ->. simpl in H. injection H as <-. reflexivity.
Qed.

Lemma pat_end_ok : pat_ok pat_end.
Proof.
  split; [simpl; lia |]. split.
  - simpl. intros H. repeat (destruct H as [H | H]; [discriminate H |]). exact H.
  - intros k x H E. simpl in E. injection E as ->. simpl in H. injection H as <-. reflexivity.
Qed.

Lemma dstep_nohit : forall p k c, pat_ok p -> c <> lbrace -> snd (dstep p k c) = 0.
Proof.
  intros p k c [_ [_ Hl]] Hc. unfold dstep. destruct (nth_error p k) as [x |] eqn:E; [| reflexivity].
  destruct (Ascii.eqb_spec c x) as [-> | _].
  - destruct (Nat.eqb_spec (S k) (length p)) as [E2 | _]; [| reflexivity].
    exfalso. apply Hc. exact (Hl k x E E2).
  - destruct p as [| c0 p]; [reflexivity |]. destruct (Ascii.eqb c c0); reflexivity.
Qed.

Lemma dstep_nl : forall p k, pat_ok p -> dstep p k nl = (0, 0).
Proof.
  intros p k [_ [Hn _]]. unfold dstep. destruct (nth_error p k) as [x |] eqn:E; [| reflexivity].
  destruct (Ascii.eqb_spec nl x) as [<- | _].
  - exfalso. apply Hn. eapply nth_error_In. exact E.
  - destruct p as [| c0 p]; [reflexivity |].
    destruct (Ascii.eqb_spec nl c0) as [<- | _]; [exfalso; apply Hn; left; reflexivity | reflexivity].
Qed.

Lemma dhits_app : forall p a b k, dhits p k (a ++ b) = dhits p k a + dhits p (dstate p k a) b.
Proof.
  induction a as [| c a IH]; intros b k; [reflexivity |].
  simpl app. rewrite !dhits_cons, IH. simpl dstate. lia.
Qed.

Lemma dstate_lt : forall p, 2 <= length p -> forall s k, k < length p -> dstate p k s < length p.
Proof.
  intros p Hp. induction s as [| c s IH]; intros k Hk; [exact Hk |].
  simpl. apply IH. apply dstep_lt; assumption.
Qed.

Definition quiet (p s : str) : Prop := forall k, k < length p -> dhits p k s = 0.

Lemma quiet_nil : forall p, quiet p [].
Proof. intros p k _. reflexivity. Qed.

Lemma quiet_app : forall p a b, pat_ok p -> quiet p a -> quiet p b -> quiet p (a ++ b).
Proof.
  intros p a b [Hp _] Ha Hb k Hk. rewrite dhits_app, (Ha k Hk), Hb; [reflexivity |].
  apply dstate_lt; assumption.
Qed.

Lemma quiet_no_lbrace : forall p s, pat_ok p -> Forall (fun c => c <> lbrace) s -> quiet p s.
Proof.
  intros p s Hp H. induction H as [| c s Hc _ IH]; intros k Hk; [reflexivity |].
  rewrite dhits_cons, (dstep_nohit p k c Hp Hc). simpl. apply IH.
  apply dstep_lt; [exact (proj1 Hp) | exact Hk].
Qed.

Lemma brace_free_no_lbrace : forall s, brace_free s -> Forall (fun c => c <> lbrace) s.
Proof.
  unfold brace_free, bf. induction s as [| c s IH]; intro H; [constructor |].
  simpl in H. destruct (is_brace c) eqn:E; [discriminate |].
  constructor; [| apply IH; exact H]. intros ->. discriminate E.
Qed.

Lemma brace_free_quiet : forall p s, pat_ok p -> brace_free s -> quiet p s.
Proof. intros p s Hp H. apply quiet_no_lbrace; [exact Hp | apply brace_free_no_lbrace; exact H]. Qed.

Definition quietb (p s : str) : bool :=
  forallb (fun k => Nat.eqb (dhits p k s) 0) (seq 0 (length p)).

Lemma quietb_sound : forall p s, quietb p s = true -> quiet p s.
Proof.
  intros p s H k Hk. unfold quietb in H. rewrite forallb_forall in H.
  apply Nat.eqb_eq. apply H. apply in_seq. lia.
Qed.

(** what every hole value satisfies: balanced, and completing no [\begin{] / [\end{] *)
Definition val_ok (v : str) : Prop :=
  balanced v = true /\ quiet pat_begin v /\ quiet pat_end v.

Definition val_okb (v : str) : bool :=
  balanced v && quietb pat_begin v && quietb pat_end v.

Lemma val_okb_sound : forall v, val_okb v = true -> val_ok v.
Proof.
  intros v H. unfold val_okb in H. apply andb_true_iff in H as [H H3]. apply andb_true_iff in H as [H1 H2].
  split; [exact H1 |]. split; apply quietb_sound; assumption.
Qed.

Lemma brace_free_val_ok : forall v, brace_free v -> val_ok v.
Proof.
  intros v H. split; [apply brace_free_balanced; exact H |].
  split; apply brace_free_quiet; try exact H; [exact pat_begin_ok | exact pat_end_ok].
Qed.

Lemma balanced_app : forall a b, balanced a = true -> balanced b = true -> balanced (a ++ b) = true.
Proof.
  intros a b Ha Hb. apply balanced_iff. rewrite scan_app, (balanced_scan a 0 Ha). apply balanced_iff. exact Hb.
Qed.

Lemma val_ok_app : forall a b, val_ok a -> val_ok b -> val_ok (a ++ b).
Proof.
  intros a b [A1 [A2 A3]] [B1 [B2 B3]]. split; [apply balanced_app; assumption |].
  split; apply quiet_app; try assumption; [exact pat_begin_ok | exact pat_end_ok].
Qed.

(** * Instantiation keeps quiet *)
Definition lit_quietb (p : str) (x : item) : bool :=
  match x with Lit s => quietb p (list_ascii_of_string s) | _ => true end.

Lemma inst_quiet : forall p, pat_ok p -> forall its vals s,
  forallb (lit_quietb p) its = true -> Forall (quiet p) vals -> inst its vals = Some s -> quiet p s.
Proof.
  intros p Hp. induction its as [| x its IH]; intros vals s Hq Hv H.
  - simpl in H. destruct vals; [injection H as <-; apply quiet_nil | discriminate].
  - simpl in Hq. apply andb_true_iff in Hq as [Hx Hq]. rewrite inst_cons in H.
    destruct x as [lit | | h].
    + destruct (inst its vals) as [r |] eqn:E; [| discriminate]. injection H as <-.
      apply quiet_app; [exact Hp | apply quietb_sound; exact Hx | exact (IH vals r Hq Hv E)].
    + destruct (inst its vals) as [r |] eqn:E; [| discriminate]. injection H as <-.
      change (nl :: r) with ([nl] ++ r). apply quiet_app; [exact Hp | | exact (IH vals r Hq Hv E)].
      apply quiet_no_lbrace; [exact Hp |]. constructor; [discriminate | constructor].
    + destruct vals as [| v vs]; [discriminate |].
      destruct (inst its vs) as [r |] eqn:E; [| discriminate]. injection H as <-.
      inversion Hv as [| ? ? Hv1 Hv2]; subst.
      apply quiet_app; [exact Hp | exact Hv1 | exact (IH vs r Hq Hv2 E)].
Qed.

(** lines joined by newlines: the occurrences are those of the lines *)
Lemma dhits_join : forall p ls, pat_ok p ->
  dhits p 0 (join_with [nl] ls) = list_sum (map (dhits p 0) ls).
Proof.
  intros p ls Hp. induction ls as [| x ls IH]; [reflexivity |].
  destruct ls as [| y ls].
  - simpl. lia.
  - rewrite join_with_cons by discriminate. rewrite dhits_app.
    change ([nl] ++ join_with [nl] (y :: ls)) with (nl :: join_with [nl] (y :: ls)).
    rewrite dhits_cons, dstep_nl by exact Hp. cbn [fst snd]. rewrite IH.
    change (map (dhits p 0) (x :: y :: ls)) with (dhits p 0 x :: map (dhits p 0) (y :: ls)).
    cbn [list_sum fold_right]. reflexivity.
Qed.

Lemma list_sum_zero : forall (A : Type) (f : A -> nat) l, Forall (fun x => f x = 0) l -> list_sum (map f l) = 0.
Proof. intros A f l H. induction H as [| x l Hx _ IH]; [reflexivity |]. simpl. rewrite Hx, IH. reflexivity. Qed.

(** * The text of the output lines *)

(** Python's [str(int)] *)
Definition dec (n : nat) : str := list_ascii_of_string (NilEmpty.string_of_uint (Nat.to_uint n)).

Lemma dec_brace_free : forall n, brace_free (dec n).
Proof.
  intro n. unfold dec. generalize (Nat.to_uint n). intro d.
  induction d; unfold brace_free, bf in *; simpl; try exact IHd. reflexivity.
Qed.

(** the name [get_color] returns for colour number [i] *)
Definition colour_name (tpls : list entry) (i : nat) : option str :=
  match filter (fun e => site_eqb (e_site e) SColourName) tpls with
  | [n] => inst (e_items n) [dec i]
  | _ => None
  end.

Arguments colour_name : simpl never.

(** the hole values of one line, left to right: the colour name / index from the colour index
    of the line, the label / HTML colour / layer name from its text, coordinates and parameters
    from [free] (all of [free] must be used) *)
Fixpoint fill (tpls : list entry) (its : list item) (ci : option nat) (txt : option string)
    (free : list str) : option (list str) :=
  match its with
  | [] => match free with [] => Some [] | _ => None end
  | Hole h :: r =>
      match h with
      | HCoord | HParam =>
          match free with
          | v :: fr => option_map (cons v) (fill tpls r ci txt fr)
          | [] => None
          end
      | HColourName =>
          match ci with
          | Some i =>
              match colour_name tpls i with
              | Some v => option_map (cons v) (fill tpls r ci txt free)
              | None => None
              end
          | None => None
          end
      | HColourIndex =>
          match ci with
          | Some i => option_map (cons (dec i)) (fill tpls r ci txt free)
          | None => None
          end
      | HColourHtml | HLabel | HLayerName =>
          match txt with
          | Some x => option_map (cons (los x)) (fill tpls r ci txt free)
          | None => None
          end
      end
  | _ :: r => fill tpls r ci txt free
  end.

Definition oline_text (tpls : list entry) (o : oline) (free : list str) : option str :=
  match nth_error tpls (fst (fst o)) with
  | Some e =>
      match fill tpls (e_items e) (snd (fst o)) (snd o) free with
      | Some vals => inst (e_items e) vals
      | None => None
      end
  | None => None
  end.

(** one list of coordinates / parameters per output line *)
Fixpoint text_lines (tpls : list entry) (ols : list oline) (frees : list (list str)) : option (list str) :=
  match ols, frees with
  | [], [] => Some []
  | o :: ols', f :: frees' =>
      match oline_text tpls o f, text_lines tpls ols' frees' with
      | Some l, Some ls => Some (l :: ls)
      | _, _ => None
      end
  | _, _ => None
  end.

Lemma Forall2_weaken : forall (A B : Type) (R S : A -> B -> Prop) xs ys,
  (forall x y, R x y -> S x y) -> Forall2 R xs ys -> Forall2 S xs ys.
Proof. intros A B R S xs ys H F. induction F; constructor; auto. Qed.

Lemma text_lines_Forall2 : forall tpls ols frees lines,
  text_lines tpls ols frees = Some lines ->
  Forall2 (fun o l => exists f, In f frees /\ oline_text tpls o f = Some l) ols lines.
Proof.
  induction ols as [| o ols IH]; intros frees lines H; destruct frees as [| f frees]; simpl in H; try discriminate.
  - injection H as <-. constructor.
  - destruct (oline_text tpls o f) as [l |] eqn:El; [| discriminate].
    destruct (text_lines tpls ols frees) as [ls |] eqn:Els; [| discriminate]. injection H as <-.
    constructor.
    + exists f. split; [left; reflexivity | exact El].
    + eapply Forall2_weaken; [| apply IH; exact Els].
      intros a b [g [Hg Hl]]. exists g. split; [right; exact Hg | exact Hl].
Qed.

(** * Closed facts about the generated templates, evaluated by the kernel *)
Lemma ids_ok : forall e, In e templates -> nth_error templates (e_id e) = Some e.
Proof.
  intros e H. unfold templates in H. simpl in H.
  repeat (destruct H as [<- | H]; [reflexivity |]). contradiction.
Qed.

Definition site_exempt (s : site) : bool :=
  match s with SBegin | SEnd | SMeasure => true | _ => false end.

Definition entry_quietb (e : entry) : bool :=
  (site_exempt (e_site e)
   || (forallb (lit_quietb pat_begin) (e_items e) && forallb (lit_quietb pat_end) (e_items e)))
  && match e_site e with
     | STrailer => items_eqb (e_items e) []
     | SComment => items_eqb (e_items e) [Lit "% "; Hole HLayerName]
     | _ => true
     end.

Theorem templates_quiet_checked : forallb entry_quietb templates = true.
Proof. vm_compute. reflexivity. Qed.

Theorem layer_names_checked : forallb (fun ly => val_okb (los ly)) layer_names = true.
Proof. vm_compute. reflexivity. Qed.

Lemma site_eqb_eq : forall a b, site_eqb a b = true -> a = b.
Proof.
  intros a b H. destruct a, b; simpl in H; try discriminate; try reflexivity.
  apply String.eqb_eq in H. subst. reflexivity.
Qed.

Lemma entry_quiet : forall e, In e templates -> entry_quietb e = true.
Proof. intros e H. exact (proj1 (forallb_forall _ _) templates_quiet_checked e H). Qed.

(** every line instantiated from a generated template with good hole values *)
Lemma template_line : forall e vals l,
  In e templates -> Forall val_ok vals -> inst (e_items e) vals = Some l ->
  balanced l = true
  /\ (is_stmt (e_site e) = true -> ends_with_semi l = true)
  /\ (site_exempt (e_site e) = false -> quiet pat_begin l /\ quiet pat_end l).
Proof.
  intros e vals l Hin Hv Hi.
  assert (Hb : Forall (fun v => balanced v = true) vals).
  { eapply Forall_impl; [| exact Hv]. intros v [H _]. exact H. }
  destruct (templates_balanced e vals l Hin Hb Hi) as [H1 H2].
  split; [exact H1 |]. split; [exact H2 |]. intro Hex.
  pose proof (entry_quiet e Hin) as Hq. unfold entry_quietb in Hq. rewrite Hex in Hq.
  apply andb_true_iff in Hq as [Hq _]. simpl in Hq. apply andb_true_iff in Hq as [Hq1 Hq2].
  split.
  - eapply (inst_quiet pat_begin pat_begin_ok); [exact Hq1 | | exact Hi].
    eapply Forall_impl; [| exact Hv]. intros v [_ [H _]]. exact H.
  - eapply (inst_quiet pat_end pat_end_ok); [exact Hq2 | | exact Hi].
    eapply Forall_impl; [| exact Hv]. intros v [_ [_ H]]. exact H.
Qed.

Lemma env_entry : forall e, In e templates ->
  match e_site e with
  | SBegin => e_items e = [Lit "\begin{tikzpicture}"]
  | SEnd => e_items e = [Lit "\end{tikzpicture}"]
  | STrailer => e_items e = []
  | SComment => e_items e = [Lit "% "; Hole HLayerName]
  | _ => True
  end.
Proof.
  intros e Hin. pose proof single_environment as H. unfold environment_ok in H.
  apply andb_true_iff in H as [H _]. apply andb_true_iff in H as [H _].
  rewrite forallb_forall in H. specialize (H e Hin). cbv beta in H.
  pose proof (entry_quiet e Hin) as Hq. unfold entry_quietb in Hq. apply andb_true_iff in Hq as [_ Hq].
  destruct (e_site e); try exact I.
  - apply items_eqb_eq. exact H.
  - apply items_eqb_eq. exact Hq.
  - apply items_eqb_eq. exact H.
  - apply items_eqb_eq. exact Hq.
Qed.

Lemma site_entry_inv : forall tpls v s t, site_entry tpls v s = Some t ->
  exists e, In e tpls /\ e_site e = s /\ t = e_id e.
Proof.
  intros tpls v s t H. unfold site_entry in H.
  destruct (filter _ tpls) as [| e [| ? ?]] eqn:F; try discriminate. injection H as <-.
  assert (Hin : In e (e :: nil)) by (left; reflexivity). rewrite <- F in Hin.
  apply filter_In in Hin as [Hin Hp]. apply andb_true_iff in Hp as [Hp _].
  exists e. split; [exact Hin |]. split; [apply site_eqb_eq; exact Hp | reflexivity].
Qed.

(** * Lists of optional lists *)
Lemma concat_opt_cons_inv : forall (A : Type) (x : option (list A)) l r,
  concat_opt (x :: l) = Some r -> exists a b, x = Some a /\ concat_opt l = Some b /\ r = a ++ b.
Proof.
  intros A x l r H. simpl in H. destruct x as [a |]; [| discriminate].
  destruct (concat_opt l) as [b |]; [| discriminate]. injection H as <-.
  exists a, b. repeat split.
Qed.

Lemma concat_opt_in : forall (A : Type) (l : list (option (list A))) r x,
  concat_opt l = Some r -> In x r -> exists a, In (Some a) l /\ In x a.
Proof.
  induction l as [| y l IH]; intros r x H Hx.
  - injection H as <-. destruct Hx.
  - apply concat_opt_cons_inv in H as [a [b [-> [Hb ->]]]].
    apply in_app_or in Hx as [Hx | Hx].
    + exists a. split; [left; reflexivity | exact Hx].
    + destruct (IH b x Hb Hx) as [a' [H1 H2]]. exists a'. split; [right; exact H1 | exact H2].
Qed.

Lemma all_opt_Forall2 : forall (A B : Type) (f : A -> option B) xs ys,
  all_opt (map f xs) = Some ys -> Forall2 (fun x y => f x = Some y) xs ys.
Proof.
  induction xs as [| x xs IH]; intros ys H; simpl in H.
  - injection H as <-. constructor.
  - destruct (f x) as [y |] eqn:E; [| discriminate].
    destruct (all_opt (map f xs)) as [r |]; [| discriminate]. injection H as <-.
    constructor; [exact E | apply IH; reflexivity].
Qed.

Lemma Forall2_Forall_r : forall (A B : Type) (R : A -> B -> Prop) (P : A -> Prop) (Q : B -> Prop) xs ys,
  Forall2 R xs ys -> Forall P xs -> (forall x y, P x -> R x y -> Q y) -> Forall Q ys.
Proof.
  intros A B R P Q xs ys F. induction F as [| x y xs ys Hxy _ IH]; intros HP H; [constructor |].
  inversion HP as [| ? ? Hx Hxs]; subst. constructor; [exact (H x y Hx Hxy) | apply IH; assumption].
Qed.

(** * The statements emitted for a species *)
Definition stmt_from (tpls : list entry) (colour label : string) (s : stmt) : Prop :=
  exists e, In e tpls /\ s_tid s = e_id e /\ e_site e = SLayer (s_layer s)
    /\ s_colour s = (if has_hole HColourName (e_items e) then Some colour else None)
    /\ s_label s = (if has_hole HLabel (e_items e) then Some label else None).

Lemma emit_spec : forall tpls fn env colour label ss,
  emit tpls fn env colour label = Some ss -> Forall (stmt_from tpls colour label) ss.
Proof.
  induction tpls as [| e r IH]; intros fn env colour label ss H; simpl in H.
  - injection H as <-. constructor.
  - destruct (emit r fn env colour label) as [rest |] eqn:E; [| discriminate].
    assert (Hrest : Forall (stmt_from (e :: r) colour label) rest).
    { eapply Forall_impl; [| exact (IH _ _ _ _ _ E)].
      intros s [e' [H1 H2]]. exists e'. split; [right; exact H1 | exact H2]. }
    destruct (e_site e) as [| | ly | | | | | |] eqn:Es; try (injection H as <-; exact Hrest).
    destruct (String.eqb (e_fn e) fn); [| injection H as <-; exact Hrest].
    destruct (holds env (e_guards e)) as [[|] |]; [| injection H as <-; exact Hrest | discriminate].
    injection H as <-. constructor; [| exact Hrest].
    exists e. split; [left; reflexivity |]. split; [reflexivity |]. split; [exact Es |]. simpl.
    split; reflexivity.
Qed.

Definition stmt_ok (s : stmt) : Prop :=
  exists e, In e templates /\ s_tid s = e_id e /\ e_site e = SLayer (s_layer s)
    /\ (forall c, s_colour s = Some c -> brace_free (los c))
    /\ (forall l, s_label s = Some l -> val_ok (los l)).

Definition branch_ok (b : branch) : Prop := brace_free (los (b_colour b)) /\ val_ok (los (b_label b)).
Definition species_ok (s : species) : Prop := val_ok (los (sp_label s)) /\ Forall branch_ok (sp_branches s).

Lemma stmt_from_ok : forall colour label s,
  brace_free (los colour) -> val_ok (los label) -> stmt_from templates colour label s -> stmt_ok s.
Proof.
  intros colour label s Hc Hl [e [H1 [H2 [H3 [H4 H5]]]]]. exists e.
  split; [exact H1 |]. split; [exact H2 |]. split; [exact H3 |]. split.
  - intros c E. rewrite H4 in E. destruct (has_hole HColourName (e_items e)); [injection E as <-; exact Hc | discriminate].
  - intros l E. rewrite H5 in E. destruct (has_hole HLabel (e_items e)); [injection E as <-; exact Hl | discriminate].
Qed.

Lemma emit_species_ok : forall v s ss,
  species_ok s -> emit_species templates v s = Some ss -> Forall stmt_ok ss.
Proof.
  intros v s ss [Hl Hb] H. apply Forall_forall. intros x Hx. unfold emit_species in H.
  destruct (concat_opt_in _ _ _ x H Hx) as [a [[Ha | Ha] Hxa]].
  - apply emit_spec in Ha. rewrite Forall_forall in Ha.
    apply (stmt_from_ok "" (sp_label s)); [reflexivity | exact Hl | apply Ha; exact Hxa].
  - apply in_map_iff in Ha as [b [Ha Hin]]. apply emit_spec in Ha. rewrite Forall_forall in Ha, Hb.
    destruct (Hb b Hin) as [Hc Hlab].
    apply (stmt_from_ok (b_colour b) (b_label b)); [exact Hc | exact Hlab | apply Ha; exact Hxa].
Qed.

(** the colour table holds colours of statements *)
Lemma assign_tbl : forall (Q : string -> Prop) ss tbl tbl' out,
  assign tbl ss = (tbl', out) -> Forall Q tbl ->
  Forall (fun s => forall c, s_colour s = Some c -> Q c) ss -> Forall Q tbl'.
Proof.
  intros Q. induction ss as [| s ss IH]; intros tbl tbl' out H Ht Hs; simpl in H.
  - injection H as <- _. exact Ht.
  - inversion Hs as [| ? ? Hs1 Hs2]; subst.
    destruct (s_colour s) as [c |] eqn:Ec.
    + destruct (intern1 String.eqb tbl c) as [t1 i] eqn:E1.
      destruct (assign t1 ss) as [t2 o] eqn:E2. injection H as <- _.
      apply (IH t1 t2 o E2); [| exact Hs2].
      unfold intern1 in E1. destruct (index_of String.eqb c tbl); injection E1 as <- _; [exact Ht |].
      apply Forall_app. split; [exact Ht |]. constructor; [apply Hs1; reflexivity | constructor].
    + destruct (assign tbl ss) as [t2 o] eqn:E2. injection H as <- _.
      apply (IH tbl t2 o E2); assumption.
Qed.

(** * Labels and colours computed by the layout *)
Lemma walk_in : forall (A : Type) p (t : rose (option A)) inh x,
  walk A inh t p = Some (Some x) -> inh = Some x \/ exists q, get t q = Some (Some x).
Proof.
  intros A. induction p as [| i p IH]; intros [c ks] inh x H; simpl in H.
  - injection H as H. destruct c as [a |]; simpl in H.
    + right. exists []. simpl. rewrite H. reflexivity.
    + left. exact H.
  - destruct (nth_error ks i) as [k |] eqn:Ek; [| discriminate].
    destruct (IH k (own_or c inh) x H) as [Hl | [q Hq]].
    + destruct c as [a |]; simpl in Hl.
      * right. exists []. simpl. rewrite Hl. reflexivity.
      * left. exact Hl.
    + right. exists (i :: q). simpl. rewrite Ek. exact Hq.
Qed.

Lemma node_colour_in : forall (A : Type) (t : rose (option A)) p x,
  node_colour t p = Some x -> exists q, get t q = Some (Some x).
Proof.
  intros A t p x H. unfold node_colour, colours in H. rewrite get_propagate in H.
  destruct (walk A None t p) as [[y |] |] eqn:E; try discriminate. injection H as ->.
  destruct (walk_in A p t None x E) as [Hn | Hq]; [discriminate | exact Hq].
Qed.

Lemma get_rmap : forall (A B : Type) (f : A -> B) p t, get (rmap f t) p = option_map f (get t p).
Proof.
  intros A B f. induction p as [| i p IH]; intros [a ks]; simpl.
  - reflexivity.
  - rewrite nth_error_map. destruct (nth_error ks i) as [k |]; simpl; [apply IH | reflexivity].
Qed.

Lemma subtree_get : forall (A : Type) p (t : rose A) d ks, subtree t p = Some (RNode d ks) -> get t p = Some d.
Proof.
  intros A. induction p as [| i p IH]; intros [a kids] d ks H; simpl in *.
  - injection H as -> _. reflexivity.
  - destruct (nth_error kids i) as [k |]; [apply (IH k d ks); exact H | discriminate].
Qed.

Lemma species_label_bf : forall width name l,
  brace_free name -> species_label width name = Some l -> brace_free l.
Proof.
  intros width name l Hn H. unfold brace_free, species_label in *.
  destruct width as [w |].
  - destruct (balanced_wrap (escape name) w) as [x |] eqn:E; [| discriminate]. injection H as <-.
    rewrite bf_replace1 by reflexivity. rewrite (balanced_wrap_bf _ _ _ E), escape_bf. exact Hn.
  - injection H as <-. rewrite escape_bf. exact Hn.
Qed.

Lemma escape_brace_free : forall s, brace_free s -> brace_free (escape s).
Proof. intros s H. unfold brace_free. rewrite escape_bf. exact H. Qed.

Lemma node_label_quiet : forall p, pat_ok p -> quiet p textsub ->
  forall width is_leaf name syn psyn l,
  brace_free name ->
  match syn with Some fams => Forall brace_free fams | None => True end ->
  node_label width is_leaf name syn psyn = Some l ->
  quiet p l.
Proof.
  intros p Hp Hts width is_leaf name syn psyn l Hn Hs H. unfold node_label in H.
  destruct (synteny_text width syn) as [st |] eqn:Est; [| discriminate].
  assert (Hst : brace_free st).
  { destruct syn as [fams |].
    - unfold brace_free. rewrite (synteny_text_bf _ _ _ Est). apply concat_bf_nil. exact Hs.
    - simpl in Est. injection Est as <-. reflexivity. }
  destruct is_leaf.
  - destruct st as [| c st].
    + destruct name as [| n name]; [injection H as <-; apply quiet_nil |].
      destruct (rsplit_us (n :: name)) as [[a b] |] eqn:Er; [| discriminate]. injection H as <-.
      pose proof (rsplit_us_bf _ _ _ Er) as Hab. rewrite Hn in Hab.
      symmetry in Hab. apply app_eq_nil in Hab as [Ha Hb].
      apply (quiet_app p (escape a) (textsub ++ escape b ++ [rbrace]));
        [exact Hp | apply brace_free_quiet; [exact Hp | apply escape_brace_free; exact Ha] |].
      apply (quiet_app p textsub (escape b ++ [rbrace])); [exact Hp | exact Hts |].
      apply (quiet_app p (escape b) [rbrace]);
        [exact Hp | apply brace_free_quiet; [exact Hp | apply escape_brace_free; exact Hb] |].
      apply quiet_no_lbrace; [exact Hp |]. constructor; [discriminate | constructor].
    + injection H as <-. apply brace_free_quiet; assumption.
  - injection H as <-. destruct (syn_eqb syn psyn); [apply quiet_nil | apply brace_free_quiet; assumption].
Qed.

Lemma textsub_quiet : quiet pat_begin textsub /\ quiet pat_end textsub.
Proof. split; apply quietb_sound; vm_compute; reflexivity. Qed.

Lemma node_label_ok : forall width is_leaf name syn psyn l,
  brace_free name ->
  match syn with Some fams => Forall brace_free fams | None => True end ->
  node_label width is_leaf name syn psyn = Some l ->
  val_ok l.
Proof.
  intros width is_leaf name syn psyn l Hn Hs H. split; [| split].
  - exact (node_label_balanced _ _ _ _ _ _ Hn Hs H).
  - exact (node_label_quiet pat_begin pat_begin_ok (proj1 textsub_quiet) _ _ _ _ _ _ Hn Hs H).
  - exact (node_label_quiet pat_end pat_end_ok (proj2 textsub_quiet) _ _ _ _ _ _ Hn Hs H).
Qed.

(** * The hypothesis on the inputs: no brace in a name, a family or a colour *)
Definition odata_ok (d : odata) : Prop :=
  brace_free (los (o_name d))
  /\ match o_col d with Some c => brace_free (los c) | None => True end
  /\ match o_syn d with Some fams => Forall (fun f => brace_free (los f)) fams | None => True end.

Definition tree_ok (t : rose odata) : Prop := forall p d, get t p = Some d -> odata_ok d.

Lemma los_sol : forall l, los (sol l) = l.
Proof. intro l. unfold los, sol. apply list_ascii_of_string_of_list_ascii. Qed.

Lemma tree_colour_ok : forall t p,
  tree_ok t ->
  brace_free (los (match node_colour (rmap o_col t) p with Some x => x | None => default_colour end)).
Proof.
  intros t p Ht. destruct (node_colour (rmap o_col t) p) as [x |] eqn:E; [| reflexivity].
  destruct (node_colour_in _ _ _ _ E) as [q Hq]. rewrite get_rmap in Hq.
  destruct (get t q) as [d |] eqn:Ed; [| discriminate]. simpl in Hq. injection Hq as Hq.
  destruct (Ht q d Ed) as [_ [Hc _]]. rewrite Hq in Hc. exact Hc.
Qed.

Lemma resolve_ok : forall width t rb b, tree_ok t -> resolve width t rb = Some b -> branch_ok b.
Proof.
  intros width t rb b Ht H. unfold resolve in H. destruct (rb_gene rb) as [p | p].
  - destruct (subtree t p) as [[d ks] |] eqn:Es; [| discriminate].
    destruct (node_label width (is_nil ks) (los (o_name d)) (option_map (map los) (o_syn d)) _) as [l |] eqn:El;
      [| discriminate].
    injection H as <-. split; simpl.
    + apply tree_colour_ok. exact Ht.
    + rewrite los_sol. destruct (Ht p d (subtree_get _ _ _ _ _ Es)) as [Hn [_ Hs]].
      eapply node_label_ok; [exact Hn | | exact El].
      destruct (o_syn d) as [fams |]; simpl; [| exact I]. apply Forall_map. exact Hs.
  - injection H as <-. split; simpl.
    + unfold pseudo_colour. apply tree_colour_ok. exact Ht.
    + apply brace_free_val_ok. reflexivity.
Qed.

Lemma render_full_species : forall v ew sw t spp ols,
  tree_ok t -> Forall (fun s : bool * string * list rbranch => brace_free (los (snd (fst s)))) spp ->
  render_full templates skeleton layer_names v ew sw t spp = Some ols ->
  exists sps, Forall species_ok sps /\ render_model templates skeleton layer_names v sps = Some ols.
Proof.
  intros v ew sw t spp ols Ht Hn H. unfold render_full in H.
  destruct (all_opt _) as [sps |] eqn:E; [| discriminate]. exists sps. split; [| exact H].
  apply all_opt_Forall2 in E. eapply Forall2_Forall_r; [exact E | exact Hn |].
  intros [[leaf name] rbs] s Hname Hs. simpl in Hname.
  destruct (species_label sw (los name)) as [l |] eqn:El; [| discriminate].
  destruct (all_opt (map (resolve ew t) rbs)) as [bs |] eqn:Eb; [| discriminate].
  injection Hs as <-. split; simpl.
  - rewrite los_sol. apply brace_free_val_ok. exact (species_label_bf _ _ _ Hname El).
  - apply all_opt_Forall2 in Eb. eapply Forall2_Forall_r; [exact Eb | apply Forall_forall; intros; exact I |].
    intros rb b _ Hr. exact (resolve_ok _ _ _ _ Ht Hr).
Qed.

(** * The sequence of output lines *)
Arguments site_entry : simpl never.

Lemma walk_site_inv : forall tpls layers v tbl ss s a,
  walk_skel tpls layers v tbl ss (SkSite s) = Some a ->
  exists e, In e tpls /\ e_site e = s /\ a = [(e_id e, None, None)].
Proof.
  intros tpls layers v tbl ss s a H. simpl in H.
  destruct (site_entry tpls v s) as [t |] eqn:E; [| discriminate]. simpl in H. injection H as <-.
  destruct (site_entry_inv _ _ _ _ E) as [e [H1 [H2 ->]]]. exists e. repeat split; assumption.
Qed.

Lemma enumerate_from_in : forall (A : Type) (l : list A) k i x, In (i, x) (enumerate_from k l) -> In x l.
Proof.
  induction l as [| y l IH]; intros k i x H; simpl in H; [destruct H |].
  destruct H as [H | H]; [injection H as _ ->; left; reflexivity | right; exact (IH _ _ _ H)].
Qed.

Lemma walk_colour_inv : forall tpls layers v tbl ss a,
  walk_skel tpls layers v tbl ss (SkEachColour [SColourDef]) = Some a ->
  Forall (fun o : oline => exists e i h, In e tpls /\ e_site e = SColourDef /\ In h tbl
                                        /\ o = (e_id e, Some i, Some h)) a.
Proof.
  intros tpls layers v tbl ss a H. apply Forall_forall. intros o Ho. simpl in H.
  destruct (concat_opt_in _ _ _ o H Ho) as [a' [Ha' Hoa]].
  apply in_map_iff in Ha' as [[i h] [Hih Hin]]. simpl in Hih.
  destruct (site_entry tpls v SColourDef) as [t |] eqn:E; simpl in Hih; [| discriminate].
  injection Hih as <-. destruct Hoa as [<- | []].
  destruct (site_entry_inv _ _ _ _ E) as [e [H1 [H2 ->]]]. exists e, i, h.
  split; [exact H1 |]. split; [exact H2 |]. split; [exact (enumerate_from_in _ _ _ _ _ Hin) | reflexivity].
Qed.

Lemma walk_layer_inv : forall tpls layers v tbl ss a,
  walk_skel tpls layers v tbl ss (SkEachLayer [LSite SComment; LBody]) = Some a ->
  Forall (fun o : oline =>
            (exists e ly, In e tpls /\ e_site e = SComment /\ In ly layers /\ o = (e_id e, None, Some ly))
            \/ (exists si : stmt * option nat, In si ss /\ o = (s_tid (fst si), snd si, s_label (fst si)))) a.
Proof.
  intros tpls layers v tbl ss a H. apply Forall_forall. intros o Ho. simpl in H.
  destruct (concat_opt_in _ _ _ o H Ho) as [a' [Ha' Hoa]].
  apply in_map_iff in Ha' as [ly [Hly Hin]]. simpl in Hly.
  destruct (site_entry tpls v SComment) as [t |] eqn:E; simpl in Hly; [| discriminate].
  injection Hly as <-. destruct Hoa as [<- | Hoa].
  - left. destruct (site_entry_inv _ _ _ _ E) as [e [H1 [H2 ->]]]. exists e, ly. repeat split; assumption.
  - right. rewrite app_nil_r in Hoa. apply in_map_iff in Hoa as [si [<- Hsi]].
    apply filter_In in Hsi as [Hsi _]. exists si. split; [exact Hsi | reflexivity].
Qed.

Definition good (o : oline) (e : entry) : Prop :=
  In e templates /\ fst (fst o) = e_id e /\ (forall x, snd o = Some x -> val_ok (los x)).

Lemma good_plain : forall e, In e templates -> good (e_id e, None, None) e.
Proof. intros e H. split; [exact H |]. split; [reflexivity |]. intros x E. discriminate E. Qed.

Lemma layer_names_ok : forall ly, In ly layer_names -> val_ok (los ly).
Proof.
  intros ly H. apply val_okb_sound.
  exact (proj1 (forallb_forall _ _) layer_names_checked ly H).
Qed.

Lemma render_model_shape : forall v sps ols,
  Forall species_ok sps -> render_model templates skeleton layer_names v sps = Some ols ->
  exists e0 cd eb body ee et,
    ols = (e_id e0, None, None) :: cd ++ (e_id eb, None, None) :: body
          ++ [(e_id ee, None, None); (e_id et, None, None)]
    /\ (In e0 templates /\ e_site e0 = SDefs)
    /\ Forall (fun o : oline => exists e i h, good o e /\ e_site e = SColourDef /\ o = (e_id e, Some i, Some h)) cd
    /\ (In eb templates /\ e_site eb = SBegin)
    /\ Forall (fun o : oline => exists e, good o e /\
                 ((e_site e = SComment /\ exists ly, In ly layer_names /\ o = (e_id e, None, Some ly))
                  \/ exists ly, e_site e = SLayer ly)) body
    /\ (In ee templates /\ e_site ee = SEnd)
    /\ (In et templates /\ e_site et = STrailer).
Proof.
  intros v sps ols Hsp H. unfold render_model in H.
  destruct (concat_opt (map (emit_species templates v) sps)) as [ems |] eqn:Eems; [| discriminate].
  assert (Hems : Forall stmt_ok ems).
  { apply Forall_forall. intros x Hx. destruct (concat_opt_in _ _ _ x Eems Hx) as [a [Ha Hxa]].
    apply in_map_iff in Ha as [s [Ha Hs]]. rewrite Forall_forall in Hsp.
    pose proof (emit_species_ok v s a (Hsp s Hs) Ha) as Hf. rewrite Forall_forall in Hf. exact (Hf x Hxa). }
  destruct (assign [] ems) as [tbl ss] eqn:Eas.
  assert (Htbl : Forall (fun h => brace_free (los h)) tbl).
  { apply (assign_tbl (fun h => brace_free (los h)) ems [] tbl ss Eas); [constructor |].
    eapply Forall_impl; [| exact Hems]. intros s [e [_ [_ [_ [Hc _]]]]]. exact Hc. }
  destruct (assign_spec _ _ _ _ Eas) as [_ [Hmap _]].
  rewrite render_skeleton in H. unfold expected_skeleton in H. cbn [map] in H.
  apply concat_opt_cons_inv in H as [a1 [r1 [H1 [H ->]]]].
  apply concat_opt_cons_inv in H as [a2 [r2 [H2 [H ->]]]].
  apply concat_opt_cons_inv in H as [a3 [r3 [H3 [H ->]]]].
  apply concat_opt_cons_inv in H as [a4 [r4 [H4 [H ->]]]].
  apply concat_opt_cons_inv in H as [a5 [r5 [H5 [H ->]]]].
  apply concat_opt_cons_inv in H as [a6 [r6 [H6 [H ->]]]].
  injection H as <-.
  apply walk_site_inv in H1 as [e0 [I0 [S0 ->]]].
  apply walk_site_inv in H3 as [eb [Ib [Sb ->]]].
  apply walk_site_inv in H5 as [ee [Ie [Se ->]]].
  apply walk_site_inv in H6 as [et [It [St ->]]].
  apply walk_colour_inv in H2. apply walk_layer_inv in H4.
  exists e0, a2, eb, a4, ee, et.
  split; [reflexivity |]. split; [split; assumption |]. split; [| split; [split; assumption |]].
  - eapply Forall_impl; [| exact H2]. intros o [e [i [h [He [Hs [Hh ->]]]]]]. exists e, i, h.
    split; [| split; [exact Hs | reflexivity]].
    split; [exact He |]. split; [reflexivity |]. simpl. intros x E. injection E as <-.
    apply brace_free_val_ok. rewrite Forall_forall in Htbl. exact (Htbl h Hh).
  - split; [| split; split; assumption].
    eapply Forall_impl; [| exact H4]. intros o [[e [ly [He [Hs [Hly ->]]]]] | [si [Hsi ->]]].
    + exists e. split.
      * split; [exact He |]. split; [reflexivity |]. simpl. intros x E. injection E as <-.
        apply layer_names_ok. exact Hly.
      * left. split; [exact Hs |]. exists ly. split; [exact Hly | reflexivity].
    + assert (Hin : In (fst si) ems) by (rewrite <- Hmap; apply in_map; exact Hsi).
      rewrite Forall_forall in Hems. destruct (Hems _ Hin) as [e [He [Hid [Hs [_ Hl]]]]].
      exists e. split.
      * split; [exact He |]. split; [exact Hid |]. exact Hl.
      * right. exists (s_layer (fst si)). exact Hs.
Qed.

(** * The text of a line *)
Lemma colour_name_ok : forall i v, colour_name templates i = Some v -> val_ok v.
Proof.
  intros i v H. unfold colour_name in H.
  destruct (filter (fun e => site_eqb (e_site e) SColourName) templates) as [| n [| ? ?]] eqn:F; try discriminate.
  assert (Hin : In n (n :: nil)) by (left; reflexivity). rewrite <- F in Hin.
  apply filter_In in Hin as [Hin Hs]. apply site_eqb_eq in Hs.
  assert (Hv : Forall val_ok [dec i]).
  { constructor; [apply brace_free_val_ok; apply dec_brace_free | constructor]. }
  destruct (template_line n [dec i] v Hin Hv H) as [H1 [_ H3]].
  rewrite Hs in H3. destruct (H3 eq_refl) as [H4 H5]. split; [exact H1 |]. split; assumption.
Qed.

Lemma fill_ok : forall its ci txt free vals,
  fill templates its ci txt free = Some vals -> Forall brace_free free ->
  (forall x, txt = Some x -> val_ok (los x)) -> Forall val_ok vals.
Proof.
  induction its as [| x its IH]; intros ci txt free vals H Hf Ht.
  - simpl in H. destruct free; [injection H as <-; constructor | discriminate].
  - destruct x as [lit | | h]; try (cbn [fill] in H; exact (IH _ _ _ _ H Hf Ht)).
    destruct h; cbn [fill] in H.
    + destruct free as [| v fr]; [discriminate |].
      destruct (fill templates its ci txt fr) as [r |] eqn:E; [| discriminate]. injection H as <-.
      inversion Hf as [| ? ? Hv Hfr]; subst.
      constructor; [apply brace_free_val_ok; exact Hv | exact (IH _ _ _ _ E Hfr Ht)].
    + destruct ci as [i |]; [| discriminate].
      destruct (colour_name templates i) as [v |] eqn:Ev; [| discriminate].
      destruct (fill templates its (Some i) txt free) as [r |] eqn:E; [| discriminate]. injection H as <-.
      constructor; [exact (colour_name_ok i v Ev) | exact (IH _ _ _ _ E Hf Ht)].
    + destruct ci as [i |]; [| discriminate].
      destruct (fill templates its (Some i) txt free) as [r |] eqn:E; [| discriminate]. injection H as <-.
      constructor; [apply brace_free_val_ok; apply dec_brace_free | exact (IH _ _ _ _ E Hf Ht)].
    + destruct txt as [x |]; [| discriminate].
      destruct (fill templates its ci (Some x) free) as [r |] eqn:E; [| discriminate]. injection H as <-.
      constructor; [apply Ht; reflexivity | exact (IH _ _ _ _ E Hf Ht)].
    + destruct txt as [x |]; [| discriminate].
      destruct (fill templates its ci (Some x) free) as [r |] eqn:E; [| discriminate]. injection H as <-.
      constructor; [apply Ht; reflexivity | exact (IH _ _ _ _ E Hf Ht)].
    + destruct free as [| v fr]; [discriminate |].
      destruct (fill templates its ci txt fr) as [r |] eqn:E; [| discriminate]. injection H as <-.
      inversion Hf as [| ? ? Hv Hfr]; subst.
      constructor; [apply brace_free_val_ok; exact Hv | exact (IH _ _ _ _ E Hfr Ht)].
    + destruct txt as [x |]; [| discriminate].
      destruct (fill templates its ci (Some x) free) as [r |] eqn:E; [| discriminate]. injection H as <-.
      constructor; [apply Ht; reflexivity | exact (IH _ _ _ _ E Hf Ht)].
Qed.

(** the relation between a line of [render_full] and its text, for brace-free coordinates / parameters *)
Definition realises (o : oline) (l : str) : Prop :=
  exists f, Forall brace_free f /\ oline_text templates o f = Some l.

Lemma good_line : forall o e l, good o e -> realises o l ->
  exists vals, Forall val_ok vals /\ inst (e_items e) vals = Some l.
Proof.
  intros o e l [Hin [Hid Ht]] [f [Hf H]]. unfold oline_text in H. rewrite Hid, (ids_ok e Hin) in H.
  destruct (fill templates (e_items e) (snd (fst o)) (snd o) f) as [vals |] eqn:E; [| discriminate].
  exists vals. split; [exact (fill_ok _ _ _ _ _ E Hf Ht) | exact H].
Qed.

Lemma good_line_facts : forall o e l, good o e -> realises o l ->
  balanced l = true
  /\ (is_stmt (e_site e) = true -> ends_with_semi l = true)
  /\ (site_exempt (e_site e) = false -> quiet pat_begin l /\ quiet pat_end l).
Proof.
  intros o e l Hg Hr. destruct (good_line o e l Hg Hr) as [vals [Hv Hi]].
  exact (template_line e vals l (proj1 Hg) Hv Hi).
Qed.

Definition begin_line : str := los "\begin{tikzpicture}".
Definition end_line : str := los "\end{tikzpicture}".

Lemma fixed_line : forall e l s, In e templates -> e_items e = [Lit s] ->
  realises (e_id e, None, None) l -> l = los s.
Proof.
  intros e l s Hin Hit [f [_ H]]. unfold oline_text in H. simpl fst in H. simpl snd in H.
  rewrite (ids_ok e Hin), Hit in H. simpl in H. destruct f; [| discriminate]. simpl in H.
  injection H as <-. apply app_nil_r.
Qed.

Lemma trailer_line : forall e l, In e templates -> e_items e = [] -> realises (e_id e, None, None) l -> l = [].
Proof.
  intros e l Hin Hit [f [_ H]]. unfold oline_text in H. simpl fst in H. simpl snd in H.
  rewrite (ids_ok e Hin), Hit in H. simpl in H. destruct f; [| discriminate]. simpl in H.
  injection H as <-. reflexivity.
Qed.

Lemma comment_line : forall e ly l, In e templates -> e_site e = SComment ->
  realises (e_id e, None, Some ly) l -> l = los "% " ++ los ly.
Proof.
  intros e ly l Hin Hs [f [_ H]]. unfold oline_text in H. simpl fst in H. simpl snd in H.
  pose proof (env_entry e Hin) as Hit. rewrite Hs in Hit.
  rewrite (ids_ok e Hin), Hit in H. simpl in H. destruct f; [| discriminate]. simpl in H.
  injection H as <-. rewrite app_nil_r. reflexivity.
Qed.

Lemma colourdef_line : forall e i h l, In e templates -> e_site e = SColourDef ->
  realises (e_id e, Some i, Some h) l ->
  exists name, colour_name templates i = Some name
    /\ l = los "\definecolor{" ++ name ++ los "}{HTML}{" ++ los h ++ [rbrace].
Proof.
  intros e i h l Hin Hs [f [_ H]]. unfold oline_text in H. simpl fst in H. simpl snd in H.
  rewrite (ids_ok e Hin) in H.
  pose proof colour_definition_names_colour as Hc. unfold colourdef_ok in Hc. unfold colour_name.
  destruct (filter (fun e => site_eqb (e_site e) SColourName) templates) as [| n [| ? ?]]; try discriminate Hc.
  destruct (filter (fun e => site_eqb (e_site e) SColourDef) templates) as [| d [| ? ?]] eqn:Fd; try discriminate Hc.
  assert (Hed : In e [d]).
  { rewrite <- Fd. apply filter_In. split; [exact Hin |]. rewrite Hs. reflexivity. }
  destruct Hed as [<- | []].
  destruct (e_items n) as [| [p | | ?] [| [? | | hh] [| ? ?]]]; try discriminate Hc;
    destruct hh; try discriminate Hc.
  apply items_eqb_eq in Hc. rewrite Hc in H. simpl in H. destruct f; [| discriminate]. simpl in H.
  injection H as <-. exists (los p ++ dec i). split; [simpl; rewrite app_nil_r; reflexivity |].
  unfold los. simpl. rewrite <- !app_assoc. reflexivity.
Qed.

(** * End to end *)
Lemma Forall2_cons_l : forall (A B : Type) (R : A -> B -> Prop) x xs l,
  Forall2 R (x :: xs) l -> exists y ys, l = y :: ys /\ R x y /\ Forall2 R xs ys.
Proof. intros A B R x xs l H. inversion H; subst. eexists. eexists. repeat split; eassumption. Qed.

Lemma Forall2_nil_l : forall (A B : Type) (R : A -> B -> Prop) l, Forall2 R [] l -> l = [].
Proof. intros A B R l H. inversion H. reflexivity. Qed.

Lemma Forall2_map2 : forall (A B : Type) (R S : A -> B -> Prop) (P : A -> Prop) xs ys,
  Forall P xs -> Forall2 R xs ys -> (forall x y, P x -> R x y -> S x y) -> Forall2 S xs ys.
Proof.
  intros A B R S P xs ys HP F H. induction F as [| x y xs ys Hxy _ IH]; [constructor |].
  inversion HP as [| ? ? Hx Hxs]; subst. constructor; [exact (H x y Hx Hxy) | exact (IH Hxs)].
Qed.

Lemma count_lines : forall p l0 lcd lbody, pat_ok p ->
  quiet p l0 -> Forall (quiet p) lcd -> Forall (quiet p) lbody ->
  dhits p 0 (join_with [nl] (l0 :: lcd ++ begin_line :: lbody ++ [end_line; []]))
  = dhits p 0 begin_line + dhits p 0 end_line.
Proof.
  intros p l0 lcd lbody Hp H0 Hcd Hbody.
  assert (Hz : 0 < length p) by (destruct Hp as [Hp _]; lia).
  assert (Hq : forall ls, Forall (quiet p) ls -> list_sum (map (dhits p 0) ls) = 0).
  { intros ls H. apply list_sum_zero. eapply Forall_impl; [| exact H]. intros l Hl. exact (Hl 0 Hz). }
  rewrite dhits_join by exact Hp.
  change (l0 :: lcd ++ begin_line :: lbody ++ [end_line; []])
    with ([l0] ++ lcd ++ [begin_line] ++ lbody ++ [end_line; []]).
  rewrite !map_app, !list_sum_app, (Hq lcd Hcd), (Hq lbody Hbody).
  cbn [map list_sum fold_right]. rewrite (H0 0 Hz). change (dhits p 0 []) with 0. lia.
Qed.

(** Whenever [render_full] succeeds on inputs whose names, families and colours contain no brace,
    for every choice of brace-free coordinates and parameters:
    (a) every line of the text is brace-balanced and never closes below depth 0, and so is the
        whole text;
    (b) every line instantiated from a statement template ends with a semicolon;
    (c) the text is the definitions, the colour definitions, [\begin{tikzpicture}], lines that are
        a layer comment or end with a semicolon, [\end{tikzpicture}] and an empty line; and
        [\begin{] and [\end{] occur exactly once each in the whole text. *)
Theorem render_full_balanced : forall vertical ewidth swidth t spp ols frees lines,
  tree_ok t ->
  Forall (fun s : bool * string * list rbranch => brace_free (los (snd (fst s)))) spp ->
  Forall (Forall brace_free) frees ->
  render_full templates skeleton layer_names vertical ewidth swidth t spp = Some ols ->
  text_lines templates ols frees = Some lines ->
  Forall (fun l => scan l 0 = Some 0) lines
  /\ balanced (join_with [nl] lines) = true
  /\ Forall2 (fun (o : oline) l => forall e, nth_error templates (fst (fst o)) = Some e ->
                is_stmt (e_site e) = true -> ends_with_semi l = true) ols lines
  /\ exists defs cdefs body,
       lines = defs :: cdefs ++ begin_line :: body ++ [end_line; []]
       /\ (exists e vals, In e templates /\ e_site e = SDefs /\ inst (e_items e) vals = Some defs)
       /\ Forall (fun l => exists i h name, colour_name templates i = Some name
                    /\ l = los "\definecolor{" ++ name ++ los "}{HTML}{" ++ los h ++ [rbrace]) cdefs
       /\ Forall (fun l => (exists ly, In ly layer_names /\ l = los "% " ++ los ly)
                           \/ ends_with_semi l = true) body
       /\ occ (los "\begin{") (join_with [nl] lines) = 1
       /\ occ (los "\end{") (join_with [nl] lines) = 1.
Proof.
  intros v ew sw t spp ols frees lines Ht Hn Hfr Hr Htl.
  destruct (render_full_species _ _ _ _ _ _ Ht Hn Hr) as [sps [Hsp Hm]].
  destruct (render_model_shape _ _ _ Hsp Hm)
    as [e0 [cd [eb [body [ee [et [-> [[I0 S0] [Hcd [[Ib Sb] [Hbody [[Ie Se] [It St]]]]]]]]]]]]].
  assert (F : Forall2 realises
                ((e_id e0, None, None) :: cd ++ (e_id eb, None, None) :: body
                 ++ [(e_id ee, None, None); (e_id et, None, None)]) lines).
  { eapply Forall2_weaken; [| exact (text_lines_Forall2 _ _ _ _ Htl)].
    intros o l [f [Hf Hl]]. exists f. split; [| exact Hl]. rewrite Forall_forall in Hfr. exact (Hfr f Hf). }
  clear Htl.
  assert (Hall : Forall (fun o : oline => exists e, good o e)
                   ((e_id e0, None, None) :: cd ++ (e_id eb, None, None) :: body
                    ++ [(e_id ee, None, None); (e_id et, None, None)])).
  { constructor; [exists e0; apply good_plain; exact I0 |]. apply Forall_app. split.
    - eapply Forall_impl; [| exact Hcd]. intros o [e [i [h [Hg _]]]]. exists e. exact Hg.
    - constructor; [exists eb; apply good_plain; exact Ib |]. apply Forall_app. split.
      + eapply Forall_impl; [| exact Hbody]. intros o [e [Hg _]]. exists e. exact Hg.
      + constructor; [exists ee; apply good_plain; exact Ie |].
        constructor; [exists et; apply good_plain; exact It | constructor]. }
  assert (Hbal : Forall (fun l => balanced l = true) lines).
  { eapply Forall2_Forall_r; [exact F | exact Hall |].
    intros o l [e Hg] Hrl. exact (proj1 (good_line_facts o e l Hg Hrl)). }
  split; [| split; [| split]].
  - eapply Forall_impl; [| exact Hbal]. intros l Hl. apply balanced_iff. exact Hl.
  - apply join_balanced. exact Hbal.
  - eapply Forall2_map2; [exact Hall | exact F |].
    intros o l [e Hg] Hrl e' Hnth Hst.
    pose proof Hg as [Hin [Hid _]]. rewrite Hid, (ids_ok e Hin) in Hnth. injection Hnth as <-.
    exact (proj1 (proj2 (good_line_facts o e l Hg Hrl)) Hst).
  - clear Hall Hbal.
    apply Forall2_cons_l in F as [l0 [L1 [-> [R0 F]]]].
    apply Forall2_app_inv_l in F as [lcd [L2 [Fcd [F ->]]]].
    apply Forall2_cons_l in F as [lb [L3 [-> [Rb F]]]].
    apply Forall2_app_inv_l in F as [lbody [L4 [Fbody [F ->]]]].
    apply Forall2_cons_l in F as [le [L5 [-> [Re F]]]].
    apply Forall2_cons_l in F as [lt [L6 [-> [Rt F]]]].
    apply Forall2_nil_l in F as ->.
    pose proof (env_entry eb Ib) as Hib. rewrite Sb in Hib.
    pose proof (env_entry ee Ie) as Hie. rewrite Se in Hie.
    pose proof (env_entry et It) as Hit. rewrite St in Hit.
    rewrite (fixed_line eb lb _ Ib Hib Rb), (fixed_line ee le _ Ie Hie Re), (trailer_line et lt It Hit Rt).
    fold begin_line. fold end_line.
    assert (Q0 : quiet pat_begin l0 /\ quiet pat_end l0).
    { apply (good_line_facts _ e0 l0 (good_plain e0 I0) R0). rewrite S0. reflexivity. }
    assert (Qcd : Forall (fun l => quiet pat_begin l /\ quiet pat_end l) lcd).
    { eapply Forall2_Forall_r; [exact Fcd | exact Hcd |].
      intros o l [e [i [h [Hg [Hs _]]]]] Hrl. apply (good_line_facts o e l Hg Hrl). rewrite Hs. reflexivity. }
    assert (Qbody : Forall (fun l => quiet pat_begin l /\ quiet pat_end l) lbody).
    { eapply Forall2_Forall_r; [exact Fbody | exact Hbody |].
      intros o l [e [Hg [[Hs _] | [ly Hs]]]] Hrl; apply (good_line_facts o e l Hg Hrl); rewrite Hs; reflexivity. }
    exists l0, lcd, lbody. split; [reflexivity |]. split; [| split; [| split; [| split]]].
    + destruct (good_line _ e0 l0 (good_plain e0 I0) R0) as [vals [_ Hi]].
      exists e0, vals. split; [exact I0 |]. split; [exact S0 | exact Hi].
    + eapply Forall2_Forall_r; [exact Fcd | exact Hcd |].
      intros o l [e [i [h [Hg [Hs ->]]]]] Hrl.
      destruct (colourdef_line e i h l (proj1 Hg) Hs Hrl) as [name [H1 H2]]. exists i, h, name. split; assumption.
    + eapply Forall2_Forall_r; [exact Fbody | exact Hbody |].
      intros o l [e [Hg [[Hs [ly [Hly ->]]] | [ly Hs]]]] Hrl.
      * left. exists ly. split; [exact Hly | exact (comment_line e ly l (proj1 Hg) Hs Hrl)].
      * right. apply (good_line_facts o e l Hg Hrl). rewrite Hs. reflexivity.
    + change (los "\begin{") with pat_begin. rewrite <- dhits_occ_begin.
      transitivity (dhits pat_begin 0 begin_line + dhits pat_begin 0 end_line); [| reflexivity].
      apply (count_lines pat_begin l0 lcd lbody pat_begin_ok (proj1 Q0)).
      * eapply Forall_impl; [| exact Qcd]. intros l [H _]. exact H.
      * eapply Forall_impl; [| exact Qbody]. intros l [H _]. exact H.
    + change (los "\end{") with pat_end. rewrite <- dhits_occ_end.
      transitivity (dhits pat_end 0 begin_line + dhits pat_end 0 end_line); [| reflexivity].
      apply (count_lines pat_end l0 lcd lbody pat_end_ok (proj2 Q0)).
      * eapply Forall_impl; [| exact Qcd]. intros l [_ H]. exact H.
      * eapply Forall_impl; [| exact Qbody]. intros l [_ H]. exact H.
Qed.


(** * The text is defined whenever [render_full] succeeds *)

(** number of coordinates / parameters a template takes *)
Definition free_count (its : list item) : nat :=
  length (filter (fun x => match x with Hole HCoord | Hole HParam => true | _ => false end) its).

Definition needs_ci (its : list item) : bool :=
  existsb (fun x => match x with Hole HColourName | Hole HColourIndex => true | _ => false end) its.

Definition needs_txt (its : list item) : bool :=
  existsb (fun x => match x with Hole HColourHtml | Hole HLabel | Hole HLayerName => true | _ => false end) its.

(** which holes the templates of each site have: a statement takes a colour only through its
    colour name and a text only as its label; the fixed lines take neither *)
Definition entry_holesb (e : entry) : bool :=
  match e_site e with
  | SLayer _ =>
      Bool.eqb (needs_ci (e_items e)) (has_hole HColourName (e_items e))
      && Bool.eqb (needs_txt (e_items e)) (has_hole HLabel (e_items e))
  | SDefs | SBegin | SEnd | STrailer => negb (needs_ci (e_items e)) && negb (needs_txt (e_items e))
  | SComment => negb (needs_ci (e_items e))
  | _ => true
  end.

Theorem templates_holes_checked : forallb entry_holesb templates = true.
Proof. vm_compute. reflexivity. Qed.

Lemma colour_name_defined : forall i, exists v, colour_name templates i = Some v.
Proof.
  intro i. pose proof colour_definition_names_colour as Hc. unfold colourdef_ok in Hc. unfold colour_name.
  destruct (filter (fun e => site_eqb (e_site e) SColourName) templates) as [| n [| ? ?]]; try discriminate Hc.
  destruct (filter (fun e => site_eqb (e_site e) SColourDef) templates) as [| d [| ? ?]]; try discriminate Hc.
  destruct (e_items n) as [| [p | | ?] [| [? | | hh] [| ? ?]]]; try discriminate Hc;
    destruct hh; try discriminate Hc.
  eexists. reflexivity.
Qed.

Lemma fill_defined : forall its ci txt f,
  (needs_ci its = true -> ci <> None) -> (needs_txt its = true -> txt <> None) ->
  length f = free_count its -> exists vals, fill templates its ci txt f = Some vals.
Proof.
  induction its as [| x its IH]; intros ci txt f Hc Ht Hl.
  - destruct f; [exists []; reflexivity | discriminate].
  - destruct x as [lit | | h]; try (cbn [fill]; apply IH; assumption).
    destruct h; cbn [fill].
    + destruct f as [| v fr]; [discriminate |].
      destruct (IH ci txt fr Hc Ht) as [r Hr]; [simpl in Hl; injection Hl as Hl; exact Hl |].
      rewrite Hr. eexists. reflexivity.
    + destruct ci as [i |]; [| exfalso; apply Hc; reflexivity].
      destruct (colour_name_defined i) as [v ->].
      destruct (IH (Some i) txt f) as [r Hr]; [discriminate | exact Ht | exact Hl |].
      rewrite Hr. eexists. reflexivity.
    + destruct ci as [i |]; [| exfalso; apply Hc; reflexivity].
      destruct (IH (Some i) txt f) as [r Hr]; [discriminate | exact Ht | exact Hl |].
      rewrite Hr. eexists. reflexivity.
    + destruct txt as [t |]; [| exfalso; apply Ht; reflexivity].
      destruct (IH ci (Some t) f) as [r Hr]; [exact Hc | discriminate | exact Hl |].
      rewrite Hr. eexists. reflexivity.
    + destruct txt as [t |]; [| exfalso; apply Ht; reflexivity].
      destruct (IH ci (Some t) f) as [r Hr]; [exact Hc | discriminate | exact Hl |].
      rewrite Hr. eexists. reflexivity.
    + destruct f as [| v fr]; [discriminate |].
      destruct (IH ci txt fr Hc Ht) as [r Hr]; [simpl in Hl; injection Hl as Hl; exact Hl |].
      rewrite Hr. eexists. reflexivity.
    + destruct txt as [t |]; [| exfalso; apply Ht; reflexivity].
      destruct (IH ci (Some t) f) as [r Hr]; [exact Hc | discriminate | exact Hl |].
      rewrite Hr. eexists. reflexivity.
Qed.

Lemma inst_defined : forall its ci txt f vals,
  fill templates its ci txt f = Some vals -> exists s, inst its vals = Some s.
Proof.
  induction its as [| x its IH]; intros ci txt f vals H.
  - simpl in H. destruct f; [injection H as <-; exists []; reflexivity | discriminate].
  - rewrite inst_cons. destruct x as [lit | | h].
    + cbn [fill] in H. destruct (IH _ _ _ _ H) as [s ->]. eexists. reflexivity.
    + cbn [fill] in H. destruct (IH _ _ _ _ H) as [s ->]. eexists. reflexivity.
    + assert (Hgen : forall v r, (exists g c, fill templates its c txt g = Some r) -> vals = v :: r ->
                       exists s, match vals with v :: vs => option_map (app v) (inst its vs) | [] => None end = Some s).
      { intros v r [g [c Hr]] ->. destruct (IH _ _ _ _ Hr) as [s ->]. eexists. reflexivity. }
      destruct h; cbn [fill] in H.
      * destruct f as [| v fr]; [discriminate |].
        destruct (fill templates its ci txt fr) as [r |] eqn:E; [| discriminate]. injection H as <-.
        apply (Hgen v r); [exists fr, ci; exact E | reflexivity].
      * destruct ci as [i |]; [| discriminate]. destruct (colour_name templates i) as [v |]; [| discriminate].
        destruct (fill templates its (Some i) txt f) as [r |] eqn:E; [| discriminate]. injection H as <-.
        apply (Hgen v r); [exists f, (Some i); exact E | reflexivity].
      * destruct ci as [i |]; [| discriminate].
        destruct (fill templates its (Some i) txt f) as [r |] eqn:E; [| discriminate]. injection H as <-.
        apply (Hgen (dec i) r); [exists f, (Some i); exact E | reflexivity].
      * destruct txt as [t |]; [| discriminate].
        destruct (fill templates its ci (Some t) f) as [r |] eqn:E; [| discriminate]. injection H as <-.
        apply (Hgen (los t) r); [exists f, ci; exact E | reflexivity].
      * destruct txt as [t |]; [| discriminate].
        destruct (fill templates its ci (Some t) f) as [r |] eqn:E; [| discriminate]. injection H as <-.
        apply (Hgen (los t) r); [exists f, ci; exact E | reflexivity].
      * destruct f as [| v fr]; [discriminate |].
        destruct (fill templates its ci txt fr) as [r |] eqn:E; [| discriminate]. injection H as <-.
        apply (Hgen v r); [exists fr, ci; exact E | reflexivity].
      * destruct txt as [t |]; [| discriminate].
        destruct (fill templates its ci (Some t) f) as [r |] eqn:E; [| discriminate]. injection H as <-.
        apply (Hgen (los t) r); [exists f, ci; exact E | reflexivity].
Qed.

(** a line whose colour index / text is present whenever its template asks for one *)
Definition fillable (o : oline) : Prop :=
  exists e, In e templates /\ fst (fst o) = e_id e
    /\ (needs_ci (e_items e) = true -> snd (fst o) <> None)
    /\ (needs_txt (e_items e) = true -> snd o <> None).

Lemma fillable_line : forall o f, fillable o ->
  (forall e, nth_error templates (fst (fst o)) = Some e -> length f = free_count (e_items e)) ->
  exists l, oline_text templates o f = Some l.
Proof.
  intros o f [e [Hin [Hid [Hc Ht]]]] Hl. unfold oline_text. rewrite Hid, (ids_ok e Hin).
  rewrite Hid, (ids_ok e Hin) in Hl. specialize (Hl e eq_refl).
  destruct (fill_defined (e_items e) (snd (fst o)) (snd o) f Hc Ht Hl) as [vals Hv]. rewrite Hv.
  exact (inst_defined _ _ _ _ _ Hv).
Qed.

Lemma entry_holes : forall e, In e templates -> entry_holesb e = true.
Proof. intros e H. exact (proj1 (forallb_forall _ _) templates_holes_checked e H). Qed.

Lemma fillable_plain : forall e, In e templates ->
  (e_site e = SDefs \/ e_site e = SBegin \/ e_site e = SEnd \/ e_site e = STrailer) ->
  fillable (e_id e, None, None).
Proof.
  intros e Hin Hs. exists e. split; [exact Hin |]. split; [reflexivity |].
  pose proof (entry_holes e Hin) as Hh. unfold entry_holesb in Hh.
  assert (H : negb (needs_ci (e_items e)) && negb (needs_txt (e_items e)) = true).
  { destruct Hs as [Hs | [Hs | [Hs | Hs]]]; rewrite Hs in Hh; exact Hh. }
  apply andb_true_iff in H as [H1 H2]. apply negb_true_iff in H1, H2.
  split; intro E; [rewrite H1 in E | rewrite H2 in E]; discriminate E.
Qed.

Lemma render_model_fillable : forall v sps ols,
  render_model templates skeleton layer_names v sps = Some ols -> Forall fillable ols.
Proof.
  intros v sps ols H. unfold render_model in H.
  destruct (concat_opt (map (emit_species templates v) sps)) as [ems |] eqn:Eems; [| discriminate].
  assert (Hems : Forall (fun s => exists c l, stmt_from templates c l s) ems).
  { apply Forall_forall. intros x Hx. destruct (concat_opt_in _ _ _ x Eems Hx) as [a [Ha Hxa]].
    apply in_map_iff in Ha as [s [Ha Hs]]. unfold emit_species in Ha.
    destruct (concat_opt_in _ _ _ x Ha Hxa) as [b [[Hb | Hb] Hxb]].
    - apply emit_spec in Hb. rewrite Forall_forall in Hb. eexists. eexists. exact (Hb x Hxb).
    - apply in_map_iff in Hb as [br [Hb _]]. apply emit_spec in Hb. rewrite Forall_forall in Hb.
      eexists. eexists. exact (Hb x Hxb). }
  destruct (assign [] ems) as [tbl ss] eqn:Eas.
  destruct (assign_spec _ _ _ _ Eas) as [_ [Hmap Hcol]].
  rewrite render_skeleton in H. unfold expected_skeleton in H. cbn [map] in H.
  apply concat_opt_cons_inv in H as [a1 [r1 [H1 [H ->]]]].
  apply concat_opt_cons_inv in H as [a2 [r2 [H2 [H ->]]]].
  apply concat_opt_cons_inv in H as [a3 [r3 [H3 [H ->]]]].
  apply concat_opt_cons_inv in H as [a4 [r4 [H4 [H ->]]]].
  apply concat_opt_cons_inv in H as [a5 [r5 [H5 [H ->]]]].
  apply concat_opt_cons_inv in H as [a6 [r6 [H6 [H ->]]]].
  injection H as <-.
  apply walk_site_inv in H1 as [e0 [I0 [S0 ->]]].
  apply walk_site_inv in H3 as [eb [Ib [Sb ->]]].
  apply walk_site_inv in H5 as [ee [Ie [Se ->]]].
  apply walk_site_inv in H6 as [et [It [St ->]]].
  apply walk_colour_inv in H2. apply walk_layer_inv in H4.
  repeat (apply Forall_app; split); try constructor; try constructor.
  - apply fillable_plain; auto.
  - eapply Forall_impl; [| exact H2]. intros o [e [i [h [He [_ [_ ->]]]]]]. exists e.
    split; [exact He |]. split; [reflexivity |]. split; intros _; discriminate.
  - apply fillable_plain; auto.
  - eapply Forall_impl; [| exact H4]. intros o [[e [ly [He [Hs [_ ->]]]]] | [si [Hsi ->]]].
    + exists e. split; [exact He |]. split; [reflexivity |].
      pose proof (entry_holes e He) as Hh. unfold entry_holesb in Hh. rewrite Hs in Hh.
      apply negb_true_iff in Hh. split; [intro E; rewrite Hh in E; discriminate E | intros _; discriminate].
    + assert (Hin : In (fst si) ems) by (rewrite <- Hmap; apply in_map; exact Hsi).
      rewrite Forall_forall in Hems. destruct (Hems _ Hin) as [c [l [e [He [Hid [Hs [Hc Hl]]]]]]].
      rewrite Forall_forall in Hcol. pose proof (Hcol si Hsi) as Hsc. unfold stmt_colour_ok in Hsc.
      exists e. split; [exact He |]. split; [exact Hid |].
      pose proof (entry_holes e He) as Hh. unfold entry_holesb in Hh. rewrite Hs in Hh.
      apply andb_true_iff in Hh as [Hh1 Hh2]. apply eqb_prop in Hh1, Hh2. simpl. split.
      * intro E. rewrite Hh1 in E. rewrite E in Hc. rewrite Hc in Hsc.
        destruct (snd si); [discriminate | contradiction].
      * intro E. rewrite Hh2 in E. rewrite E in Hl. rewrite Hl. discriminate.
  - apply fillable_plain; auto.
  - apply fillable_plain; auto.
Qed.

(** for every successful [render_full] and every choice of as many coordinates / parameters as the
    template of each line takes, the text is defined: the hypothesis of [render_full_balanced]
    excludes nothing *)
Theorem render_full_text_defined : forall vertical ewidth swidth t spp ols frees,
  render_full templates skeleton layer_names vertical ewidth swidth t spp = Some ols ->
  Forall2 (fun (o : oline) f => forall e, nth_error templates (fst (fst o)) = Some e ->
             length f = free_count (e_items e)) ols frees ->
  exists lines, text_lines templates ols frees = Some lines.
Proof.
  intros v ew sw t spp ols frees H F. unfold render_full in H.
  destruct (all_opt _) as [sps |]; [| discriminate].
  pose proof (render_model_fillable _ _ _ H) as Hf. clear H.
  induction F as [| o f ols frees Hof _ IH]; [exists []; reflexivity |].
  inversion Hf as [| ? ? Ho Hols]; subst.
  destruct (fillable_line o f Ho Hof) as [l Hl]. destruct (IH Hols) as [ls Hls].
  exists (l :: ls). simpl. rewrite Hl, Hls. reflexivity.
Qed.

(** * Checking the input hypothesis by computation, and an instance *)
Definition brace_freeb (s : str) : bool := match bf s with [] => true | _ => false end.

Lemma brace_freeb_sound : forall s, brace_freeb s = true -> brace_free s.
Proof. intros s H. unfold brace_freeb in H. unfold brace_free. destruct (bf s); [reflexivity | discriminate]. Qed.

Definition odata_okb (d : odata) : bool :=
  brace_freeb (los (o_name d))
  && match o_col d with Some c => brace_freeb (los c) | None => true end
  && match o_syn d with Some fams => forallb (fun f => brace_freeb (los f)) fams | None => true end.

Fixpoint all_nodes {A} (P : A -> bool) (t : rose A) : bool :=
  match t with RNode a ks => P a && forallb (all_nodes P) ks end.

Lemma all_nodes_get : forall (A : Type) (P : A -> bool) p (t : rose A) d,
  all_nodes P t = true -> get t p = Some d -> P d = true.
Proof.
  intros A P. induction p as [| i p IH]; intros [a ks] d H Hg; simpl in H, Hg;
    apply andb_true_iff in H as [Ha Hks].
  - injection Hg as <-. exact Ha.
  - destruct (nth_error ks i) as [k |] eqn:Ek; [| discriminate].
    apply (IH k d); [| exact Hg]. rewrite forallb_forall in Hks. apply Hks.
    eapply nth_error_In. exact Ek.
Qed.

Lemma tree_okb_sound : forall t, all_nodes odata_okb t = true -> tree_ok t.
Proof.
  intros t H p d Hg. pose proof (all_nodes_get _ _ p t d H Hg) as Hd. unfold odata_okb in Hd.
  apply andb_true_iff in Hd as [Hd H3]. apply andb_true_iff in Hd as [H1 H2].
  split; [apply brace_freeb_sound; exact H1 |]. split.
  - destruct (o_col d); [apply brace_freeb_sound; exact H2 | exact I].
  - destruct (o_syn d) as [fams |]; [| exact I]. apply Forall_forall. intros f Hf.
    apply brace_freeb_sound. rewrite forallb_forall in H3. exact (H3 f Hf).
Qed.

Local Open Scope string_scope.

(** object tree ((a_1,b_1[green])x[red],c_1)r with syntenies, drawn in the species tree ((A sp,B)X_1,C)R:
    a speciation, a duplication, four leaves, a transfer and a loss *)
Definition ex_tree : rose odata :=
  RNode (mkO None "r" (Some ["f1"; "g_2"; "h\3"]))
    [RNode (mkO (Some "FF0000") "x" (Some ["f1"; "g_2"]))
       [RNode (mkO None "a_1" None) []; RNode (mkO (Some "00FF00") "b_1" (Some ["f1"; "g_2"])) []];
     RNode (mkO None "c_1" (Some ["f1"; "g_2"; "h\3"])) []].

Definition ex_spp : list (bool * string * list rbranch) :=
  [(false, "R", [mkRB KSpe false false false false (GNode [])]);
   (false, "X_1", [mkRB KDup false false false false (GNode [0])]);
   (true, "A sp", [mkRB KLeaf true true false false (GNode [0; 0])]);
   (true, "B", [mkRB KLeaf true true false false (GNode [0; 1]); mkRB KTr false false true false (GNode [0])]);
   (true, "C", [mkRB KLeaf true true false false (GNode [1]); mkRB KLoss true true false false (GPseudo [0])])].

(** the same coordinate and the same parameter everywhere *)
Definition ex_free (its : list item) : list str :=
  flat_map (fun x => match x with Hole HCoord => [los "12.5,-3"] | Hole HParam => [los "2pt"] | _ => [] end) its.

Definition ex_frees (ols : list oline) : list (list str) :=
  map (fun o : oline => match nth_error templates (fst (fst o)) with Some e => ex_free (e_items e) | None => [] end) ols.

Example render_example :
  tree_ok ex_tree
  /\ Forall (fun s : bool * string * list rbranch => brace_free (los (snd (fst s)))) ex_spp
  /\ exists ols lines,
       render_full templates skeleton layer_names true (Some 6) (Some 3) ex_tree ex_spp = Some ols
       /\ Forall (Forall brace_free) (ex_frees ols)
       /\ text_lines templates ols (ex_frees ols) = Some lines
       /\ length lines = 33
       /\ nth_error lines 2 = Some (los "\definecolor{reccolor1}{HTML}{FF0000}")
       /\ nth_error lines 8 = Some (los "\path[species background, rounded corners={2pt}] (12.5,-3) -- (12.5,-3) -- node[species label] {A\\sp} (12.5,-3) -- (12.5,-3);")
       /\ nth_error lines 24 = Some (los "\node[speciation={reccolor0}] at (12.5,-3) {f1,\\g\_2,\\h\\3};")
       /\ nth_error lines 26 = Some (los "\node[extant gene={reccolor1}{a\textsubscript{1}}] at (12.5,-3) {};")
       /\ scan (join_with [nl] lines) 0 = Some 0
       /\ occ (los "\begin{") (join_with [nl] lines) = 1.
Proof.
  split; [apply tree_okb_sound; vm_compute; reflexivity |].
  split; [repeat constructor |].
  eexists. eexists. split; [vm_compute; reflexivity |].
  split; [vm_compute; repeat constructor |].
  split; [vm_compute; reflexivity |].
  repeat split; vm_compute; reflexivity.
Qed.
