(** review C, item 13: non-emptiness / exactness / ANY of the labelled solver MODELS, full statements (split from one file so that a property depends only on the generated files it is about) *)
From Coq Require Import List Bool Arith ZArith NArith Lia Permutation.
From SR Require Import Base.PathB Base.Ext Model.Subseq Model.Entry Model.Recon Model.LcaRec Model.Thl Model.Spfs Model.Uspfs
  Proofs.SubseqProofs Proofs.PathFacts Proofs.ReconProofs Proofs.LabelCostProofs Proofs.ThlProofs
  Proofs.SpfsProofs Proofs.SpfsFinal Proofs.UspfsProofs Proofs.UspfsFinal Proofs.AllAnyProofs.
Import ListNotations.
Local Open Scope Z_scope.
(* ================================================================== *)
(** * A (review item 13): the non-emptiness / exactness / ANY lemmas of the labelled solvers, with full statements *)
Module PartA.

Theorem c03_all_nonempty : forall (S : stree) (c : costs) (extended : bool) (O : otree),
  nn (c_hgt c) -> ucoherent c -> leaves_ok S O ->
  exists E : entry ltree, uspfs S c RALL extended O = Some E /\ tags E <> [].
Proof. exact uspfs_all_nonempty. Qed.
Print Assumptions c03_all_nonempty.

Theorem c03_all_exact : forall (S : stree) (c : costs) (extended : bool) (O : otree),
  nn (c_hgt c) -> ucoherent c -> leaves_ok S O ->
  exists E : entry ltree, uspfs S c RALL extended O = Some E /\ NoDup (tags E) /\
    (forall t : ltree, In t (tags E) <-> uoptimal S c extended O t).
Proof. exact uspfs_all_exact. Qed.
Print Assumptions c03_all_exact.

(* the same against the minimum over ALL valid labellings (canonical or not) *)
Theorem c03_all_exact_global : forall (S : stree) (c : costs) (extended : bool) (O : otree),
  nn (c_hgt c) -> ucoherent c -> leaves_ok S O ->
  exists E : entry ltree, uspfs S c RALL extended O = Some E /\ NoDup (tags E) /\
    (forall t : ltree, In t (tags E) <->
       (usol S extended O t /\ forall t' : ltree, uall_sol S extended O t' -> ele (ucost c O t) (ucost c O t'))).
Proof. exact uspfs_all_exact_global. Qed.
Print Assumptions c03_all_exact_global.

Theorem c03_any : forall (S : stree) (c : costs) (extended : bool) (O : otree),
  nn (c_hgt c) -> ucoherent c -> leaves_ok S O ->
  exists (E : entry ltree) (t : ltree),
    uspfs S c RANY extended O = Some E /\ tags E = [t] /\ uoptimal S c extended O t.
Proof. exact uspfs_any. Qed.
Print Assumptions c03_any.

Theorem c02_any : forall (S : stree) (c : costs) (extended : bool) (orders : list (list fam)) (O : otree),
  nn (c_hgt c) -> orders_ok S O orders -> coherent_ord c ->
  exists e : entry ltree, spfs S c RANY extended orders O = Some e /\
    ((tags e = [] /\ (forall lt : ltree, ~ sol S extended orders O lt)) \/
     (exists lt : ltree, tags e = [lt] /\ optimal_sol S c extended orders O lt)).
Proof. exact spfs_any. Qed.
Print Assumptions c02_any.

Theorem c02_all_exact : forall (S : stree) (c : costs) (extended : bool) (orders : list (list fam)) (O : otree),
  nn (c_hgt c) -> orders_ok S O orders -> coherent_ord c ->
  forall e : entry ltree, spfs S c RALL extended orders O = Some e ->
  forall lt : ltree, In lt (tags e) <-> optimal_sol S c extended orders O lt.
Proof. exact spfs_all_exact. Qed.
Print Assumptions c02_all_exact.

End PartA.
