(** Round-trip theorems of the dictionary layer modelled in [Model/Serial.v].

    Specification vocabulary (all short):
    - [valid t p]: the path [p] addresses a node of [t];
    - [names t]: the names of all nodes; the property's "uniquely named" is
      [NoDup (names t)];
    - [name_of t p]: the name of the node at [p] (used under [valid] only);
    - [wf_tmap] / [wf_smap]: a model mapping stands for a Python dict keyed by
      nodes of the tree: distinct keys, valid paths;
    - [norm_syn]: what a synteny mapping is after the round trip: sequences
      verbatim, a [set] as the list [sort_synteny] made of it (a permutation). *)
From Coq Require Import List Bool Arith ZArith String Ascii Lia Permutation.
From SR Require Import Base.Ext Model.Newick Model.Serial Proofs.NewickProofs.
Import ListNotations.

(** * Lists *)
Lemma NoDup_app_inv {A} (a b : list A) :
  NoDup (a ++ b) -> NoDup a /\ NoDup b /\ (forall x, In x a -> ~ In x b).
Proof.
  induction a as [|x a IH]; simpl; intro H.
  - repeat split; auto. constructor.
  - inversion H as [|? ? Hx Hn]; subst. destruct (IH Hn) as (Ha & Hb & Hd).
    repeat split; auto.
    + constructor; auto. intro Hi. apply Hx, in_or_app. auto.
    + intros y [-> | Hy]; [intro Hi; apply Hx, in_or_app; auto | apply Hd, Hy].
Qed.

Lemma NoDup_map_inj_on {A B} (f : A -> B) (l : list A) :
  NoDup l -> (forall x y, In x l -> In y l -> f x = f y -> x = y) -> NoDup (map f l).
Proof.
  induction 1 as [|x l Hx Hn IH]; simpl; intro Hinj; constructor.
  - intro Hi. apply in_map_iff in Hi as (y & E & Hy).
    assert (y = x) by (apply Hinj; auto). subst. contradiction.
  - apply IH. intros; apply Hinj; auto.
Qed.

Lemma flat_map_nodup_elem {A B} (f : A -> list B) (l : list A) i x :
  NoDup (flat_map f l) -> nth_error l i = Some x -> NoDup (f x).
Proof.
  revert i. induction l as [|a l IH]; intros [|i]; simpl; intros Hn E; try discriminate.
  - injection E as ->. apply NoDup_app_inv in Hn. tauto.
  - apply NoDup_app_inv in Hn. eapply IH; [tauto | exact E].
Qed.

Lemma flat_map_nodup_nth {A B} (f : A -> list B) (l : list A) i j x y z :
  NoDup (flat_map f l) -> nth_error l i = Some x -> nth_error l j = Some y ->
  In z (f x) -> In z (f y) -> i = j.
Proof.
  revert i j. induction l as [|a l IH]; intros [|i] [|j]; simpl; intros Hn Ei Ej Hx Hy;
    try discriminate; auto; apply NoDup_app_inv in Hn as (Ha & Hl & Hd).
  - injection Ei as ->. exfalso. apply (Hd z Hx). apply in_flat_map.
    exists y. split; [eapply nth_error_In; eauto | exact Hy].
  - injection Ej as ->. exfalso. apply (Hd z Hy). apply in_flat_map.
    exists x. split; [eapply nth_error_In; eauto | exact Hx].
  - f_equal. eapply IH; eauto.
Qed.

Lemma find_first_unique {A} (f : A -> bool) (l : list A) x :
  In x l -> f x = true -> (forall y, In y l -> f y = true -> y = x) -> find f l = Some x.
Proof.
  induction l as [|a l IH]; simpl; intros Hi Hf Hu; [contradiction|].
  destruct (f a) eqn:Fa.
  - f_equal. apply Hu; auto.
  - destruct Hi as [-> | Hi]; [congruence|]. apply IH; auto.
Qed.

Lemma mapM_map {A B} (f : A -> option B) (g : A -> B) (l : list A) :
  (forall x, In x l -> f x = Some (g x)) -> mapM f l = Some (map g l).
Proof.
  induction l as [|x l IH]; simpl; intro H; [reflexivity|].
  rewrite (H x (or_introl eq_refl)), IH by (intros; apply H; auto). reflexivity.
Qed.

Lemma map_id_on {A} (f : A -> A) (l : list A) :
  (forall x, In x l -> f x = x) -> map f l = l.
Proof.
  induction l as [|x l IH]; simpl; intro H; [reflexivity|].
  rewrite (H x (or_introl eq_refl)), IH by (intros; apply H; auto). reflexivity.
Qed.

(** * Trees, paths, names *)
Definition name_of (t : tree) (p : path) : string :=
  match name_at t p with Some n => n | None => EmptyString end.

Lemma valid_subtree t p : valid t p = true <-> exists a, subtree t p = Some a.
Proof.
  unfold valid. destruct (subtree t p); split; intro H; eauto; try discriminate.
  destruct H; discriminate.
Qed.

Lemma subtree_name_in t p a : subtree t p = Some a -> In (t_name a) (names t).
Proof.
  revert t. induction p as [|i p IH]; intros [n c ks]; simpl.
  - intro E. injection E as <-. simpl. auto.
  - destruct (nth_error ks i) as [k|] eqn:Ek; [|discriminate].
    intro E. right. apply in_flat_map. exists k. split; [eapply nth_error_In; eauto | eauto].
Qed.

(* under unique names, a name identifies a node *)
Lemma names_inj t p q a b :
  NoDup (names t) -> subtree t p = Some a -> subtree t q = Some b ->
  t_name a = t_name b -> p = q.
Proof.
  revert t q. induction p as [|i p IH]; intros [n c ks] [|j q]; simpl; intros Hn Ea Eb E; auto.
  - exfalso. injection Ea as <-. simpl in E.
    destruct (nth_error ks j) as [k|] eqn:Ek; [|discriminate].
    apply NoDup_cons_iff in Hn as [Hx _]. apply Hx. rewrite E.
    apply in_flat_map. exists k. split; [eapply nth_error_In; eauto|].
    eapply subtree_name_in; eauto.
  - exfalso. injection Eb as <-. simpl in E.
    destruct (nth_error ks i) as [k|] eqn:Ek; [|discriminate].
    apply NoDup_cons_iff in Hn as [Hx _]. apply Hx. rewrite <- E.
    apply in_flat_map. exists k. split; [eapply nth_error_In; eauto|].
    eapply subtree_name_in; eauto.
  - destruct (nth_error ks i) as [k|] eqn:Ek; [|discriminate].
    destruct (nth_error ks j) as [k'|] eqn:Ek'; [|discriminate].
    apply NoDup_cons_iff in Hn as [_ Hf].
    assert (i = j).
    { eapply (flat_map_nodup_nth names ks i j k k' (t_name a)); eauto.
      - eapply subtree_name_in; eauto.
      - rewrite E. eapply subtree_name_in; eauto. }
    subst j. rewrite Ek in Ek'. injection Ek' as <-.
    f_equal. eapply IH; eauto. eapply flat_map_nodup_elem; eauto.
Qed.

(** * Pre-order and level order enumerate exactly the valid paths *)
Fixpoint pre_go (i : nat) (l : list tree) : list path :=
  match l with
  | [] => []
  | k :: l' => map (cons i) (preorder k) ++ pre_go (S i) l'
  end.
Lemma preorder_node n c ks : preorder (Node n c ks) = [] :: pre_go 0 ks.
Proof. reflexivity. Qed.

Lemma pre_go_In l : forall i p,
  In p (pre_go i l) <->
  exists j k p', p = (i + j) :: p' /\ nth_error l j = Some k /\ In p' (preorder k).
Proof.
  induction l as [|k l IH]; intros i p; simpl.
  - split; [contradiction|]. intros (j & k & p' & _ & E & _). destruct j; discriminate.
  - rewrite in_app_iff, in_map_iff, IH. split.
    + intros [(p' & <- & Hp) | (j & k' & p' & -> & E & Hp)].
      * exists 0, k, p'. rewrite Nat.add_0_r. auto.
      * exists (S j), k', p'. rewrite Nat.add_succ_r. auto.
    + intros ([|j] & k' & p' & -> & E & Hp); simpl in E.
      * injection E as <-. left. exists p'. rewrite Nat.add_0_r. auto.
      * right. exists j, k', p'. rewrite Nat.add_succ_r. auto.
Qed.

Lemma preorder_valid t : forall p, In p (preorder t) <-> valid t p = true.
Proof.
  induction t as [n c ks IH] using tree_ind'. intro p.
  rewrite preorder_node. destruct p as [|i p]; simpl.
  - split; auto.
  - rewrite pre_go_In. unfold valid. simpl. split.
    + intros [H | (j & k & p' & E & Ek & Hp)]; [discriminate|].
      simpl in E. injection E as -> ->. rewrite Ek.
      rewrite Forall_forall in IH. apply (IH k (nth_error_In _ _ Ek)). exact Hp.
    + intro H. right. destruct (nth_error ks i) as [k|] eqn:Ek; [|discriminate].
      exists i, k, p. repeat split; auto.
      rewrite Forall_forall in IH. apply (IH k (nth_error_In _ _ Ek)). exact H.
Qed.

Fixpoint height_go (l : list tree) : nat :=
  match l with [] => 0 | k :: l' => Nat.max (S (height k)) (height_go l') end.
Lemma height_node n c ks : height (Node n c ks) = height_go ks.
Proof. reflexivity. Qed.
Lemma height_go_nth l i k : nth_error l i = Some k -> S (height k) <= height_go l.
Proof.
  revert i. induction l as [|a l IH]; intros [|i] E; simpl in E; try discriminate;
    change (height_go (a :: l)) with (Nat.max (S (height a)) (height_go l)).
  - injection E as ->. lia.
  - specialize (IH i E). lia.
Qed.
Lemma valid_height t p a : subtree t p = Some a -> List.length p <= height t.
Proof.
  revert t. induction p as [|i p IH]; intros [n c ks]; simpl; intro E; [lia|].
  destruct (nth_error ks i) as [k|] eqn:Ek; [|discriminate].
  specialize (IH k E). pose proof (height_go_nth ks i k Ek).
  change (S (List.length p) <= height_go ks). lia.
Qed.

Lemma levelorder_valid t p : In p (levelorder t) <-> valid t p = true.
Proof.
  unfold levelorder. rewrite in_flat_map. split.
  - intros (d & _ & Hp). apply filter_In in Hp as [Hp _]. apply preorder_valid, Hp.
  - intro Hv. exists (List.length p). split.
    + apply in_seq. apply valid_subtree in Hv as [a Ha]. pose proof (valid_height t p a Ha). lia.
    + apply filter_In. split; [apply preorder_valid, Hv | apply Nat.eqb_refl].
Qed.

(** * [tree & name] inverts [.name] under unique names *)
Lemma find_name_name_at t p a :
  NoDup (names t) -> subtree t p = Some a -> find_name t (t_name a) = Some p.
Proof.
  intros Hn Ea. unfold find_name. apply find_first_unique.
  - apply levelorder_valid, valid_subtree. eauto.
  - unfold name_at. rewrite Ea. simpl. apply String.eqb_refl.
  - intros q Hq Hf. unfold name_at in Hf.
    destruct (subtree t q) as [b|] eqn:Eb; simpl in Hf; [|discriminate].
    apply String.eqb_eq in Hf. symmetry. eapply names_inj; eauto.
Qed.

Lemma find_name_of t p :
  NoDup (names t) -> valid t p = true ->
  name_at t p = Some (name_of t p) /\ find_name t (name_of t p) = Some p.
Proof.
  intros Hn Hv. apply valid_subtree in Hv as [a Ea].
  unfold name_of, name_at. rewrite Ea. simpl. split; [reflexivity|].
  eapply find_name_name_at; eauto.
Qed.

Lemma name_of_inj t p q :
  NoDup (names t) -> valid t p = true -> valid t q = true ->
  name_of t p = name_of t q -> p = q.
Proof.
  intros Hn Hp Hq E. apply valid_subtree in Hp as [a Ea]. apply valid_subtree in Hq as [b Eb].
  unfold name_of, name_at in E. rewrite Ea, Eb in E. simpl in E.
  eapply names_inj; eauto.
Qed.

(** * Dict comprehensions over distinct keys *)
Lemma dset_fresh {V} k (v : V) d : ~ In k (map fst d) -> dset k v d = d ++ [(k, v)].
Proof.
  induction d as [|[k' v'] d IH]; simpl; intro H; [reflexivity|].
  destruct (String.eqb_spec k k') as [-> | Hne]; [exfalso; auto|].
  rewrite IH by auto. reflexivity.
Qed.

Lemma dict_of_acc {V} (l acc : list (string * V)) :
  NoDup (map fst (acc ++ l)) ->
  fold_left (fun d kv => dset (fst kv) (snd kv) d) l acc = acc ++ l.
Proof.
  revert acc. induction l as [|[k v] l IH]; intros acc Hn; simpl.
  - rewrite app_nil_r. reflexivity.
  - rewrite dset_fresh.
    + rewrite IH; rewrite <- app_assoc; [reflexivity | exact Hn].
    + rewrite map_app in Hn. simpl in Hn. apply NoDup_remove_2 in Hn.
      intro Hi. apply Hn, in_or_app. auto.
Qed.

Lemma dict_of_nodup {V} (l : list (string * V)) : NoDup (map fst l) -> dict_of l = l.
Proof. intro H. unfold dict_of. rewrite dict_of_acc; auto. Qed.

(** * Mappings between trees *)
Definition wf_tmap (O S : tree) (m : treemap) : Prop :=
  NoDup (map fst m) /\
  Forall (fun pq => valid O (fst pq) = true /\ valid S (snd pq) = true) m.
Definition named_tmap (O S : tree) (m : treemap) : dict string :=
  map (fun pq => (name_of O (fst pq), name_of S (snd pq))) m.

Lemma keys_named {V W} (T : tree) (m : list (path * V)) (g : path * V -> W) :
  NoDup (names T) -> NoDup (map fst m) -> Forall (fun pv => valid T (fst pv) = true) m ->
  NoDup (map fst (map (fun pv => (name_of T (fst pv), g pv)) m)).
Proof.
  intros Hn Hk Hv. rewrite map_map. simpl.
  rewrite <- (map_map fst (name_of T)).
  apply NoDup_map_inj_on; [exact Hk|].
  intros p q Hp Hq E. rewrite Forall_forall in Hv.
  apply in_map_iff in Hp as (x & <- & Hx). apply in_map_iff in Hq as (y & <- & Hy).
  eapply name_of_inj; eauto.
Qed.

Theorem serialize_tree_mapping_spec O S m :
  NoDup (names O) -> NoDup (names S) -> wf_tmap O S m ->
  serialize_tree_mapping O S m = Some (named_tmap O S m).
Proof.
  intros HO HS [Hk Hv]. unfold serialize_tree_mapping.
  rewrite (mapM_map _ (fun pq => (name_of O (fst pq), name_of S (snd pq)))).
  - simpl. f_equal. apply dict_of_nodup.
    apply (keys_named O m (fun pq => name_of S (snd pq))); auto.
    eapply Forall_impl; [|exact Hv]. intros pq [H1 _]. exact H1.
  - intros pq Hi. rewrite Forall_forall in Hv. destruct (Hv pq Hi) as [H1 H2].
    destruct (find_name_of O _ HO H1) as [-> _]. destruct (find_name_of S _ HS H2) as [-> _].
    reflexivity.
Qed.

Theorem parse_named_tmap O S m :
  NoDup (names O) -> NoDup (names S) -> wf_tmap O S m ->
  parse_tree_mapping O S (named_tmap O S m) = Some m.
Proof.
  intros HO HS [Hk Hv]. unfold parse_tree_mapping, named_tmap.
  induction m as [|[p q] m IH]; simpl; [reflexivity|].
  inversion Hv as [|? ? [H1 H2] Hv']; subst. simpl in *.
  destruct (find_name_of O p HO H1) as [_ ->]. destruct (find_name_of S q HS H2) as [_ ->].
  inversion Hk; subst. rewrite IH; auto.
Qed.

Theorem mapping_roundtrip O S m :
  NoDup (names O) -> NoDup (names S) -> wf_tmap O S m ->
  exists d, serialize_tree_mapping O S m = Some d /\ parse_tree_mapping O S d = Some m.
Proof.
  intros HO HS Hm. exists (named_tmap O S m). split.
  - apply serialize_tree_mapping_spec; auto.
  - apply parse_named_tmap; auto.
Qed.

(** * Syntenies *)
Lemma insert_syn_perm x l : Permutation (insert_syn x l) (x :: l).
Proof.
  induction l as [|y l IH]; simpl; [reflexivity|].
  destruct (key_lt y x); [|reflexivity].
  rewrite IH. apply perm_swap.
Qed.
Theorem sort_synteny_perm l : Permutation (sort_synteny l) l.
Proof.
  induction l as [|x l IH]; simpl; [reflexivity|].
  rewrite insert_syn_perm. constructor. exact IH.
Qed.

Definition syn_items (s : syn) : list string := match s with SList l => l | SSet l => l end.
Theorem ser_syn_list l : ser_syn (SList l) = l.
Proof. reflexivity. Qed.
Theorem ser_syn_perm s : Permutation (ser_syn s) (syn_items s).
Proof. destruct s; simpl; [reflexivity | apply sort_synteny_perm]. Qed.

Definition wf_smap (T : tree) (m : synmap) : Prop :=
  NoDup (map fst m) /\ Forall (fun ps => valid T (fst ps) = true) m.
Definition named_smap (T : tree) (m : synmap) : dict (list string) :=
  map (fun ps => (name_of T (fst ps), ser_syn (snd ps))) m.
(* a synteny mapping after the round trip *)
Definition norm_syn (m : synmap) : synmap := map (fun ps => (fst ps, SList (ser_syn (snd ps)))) m.

Theorem serialize_synteny_mapping_spec T m :
  NoDup (names T) -> wf_smap T m ->
  serialize_synteny_mapping T m = Some (named_smap T m).
Proof.
  intros HT [Hk Hv]. unfold serialize_synteny_mapping.
  rewrite (mapM_map _ (fun ps => (name_of T (fst ps), ser_syn (snd ps)))).
  - simpl. f_equal. apply dict_of_nodup.
    apply (keys_named T m (fun ps => ser_syn (snd ps))); auto.
  - intros ps Hi. rewrite Forall_forall in Hv.
    destruct (find_name_of T _ HT (Hv ps Hi)) as [-> _]. reflexivity.
Qed.

Theorem parse_named_smap T m :
  NoDup (names T) -> wf_smap T m ->
  parse_synteny_mapping T (named_smap T m) = Some (norm_syn m).
Proof.
  intros HT [Hk Hv]. unfold parse_synteny_mapping, named_smap, norm_syn.
  induction m as [|[p s] m IH]; simpl; [reflexivity|].
  inversion Hv as [|? ? H1 Hv']; subst. simpl in *.
  destruct (find_name_of T p HT H1) as [_ ->]. simpl.
  inversion Hk; subst. rewrite IH; auto.
Qed.

Theorem synteny_roundtrip T m :
  NoDup (names T) -> wf_smap T m ->
  exists d, serialize_synteny_mapping T m = Some d /\
            parse_synteny_mapping T d = Some (norm_syn m).
Proof.
  intros HT Hm. exists (named_smap T m). split.
  - apply serialize_synteny_mapping_spec; auto.
  - apply parse_named_smap; auto.
Qed.

Lemma norm_syn_keys m : map fst (norm_syn m) = map fst m.
Proof. unfold norm_syn. rewrite map_map. reflexivity. Qed.
Lemma wf_smap_norm T m : wf_smap T m -> wf_smap T (norm_syn m).
Proof.
  intros [Hk Hv]. split; [rewrite norm_syn_keys; exact Hk|].
  unfold norm_syn. rewrite Forall_map. exact Hv.
Qed.
(* serialising a normalised mapping gives the same dictionary *)
Lemma named_smap_norm T m : named_smap T (norm_syn m) = named_smap T m.
Proof. unfold named_smap, norm_syn. rewrite map_map. reflexivity. Qed.
(* what the labelling is after the round trip: the same keys in the same order,
   sequences verbatim, sets as a permutation of their elements *)
Theorem norm_syn_spec m :
  Forall2 (fun a b => fst b = fst a /\
                      (forall l, snd a = SList l -> snd b = SList l) /\
                      exists l', snd b = SList l' /\ Permutation l' (syn_items (snd a)))
          m (norm_syn m).
Proof.
  induction m as [|[p s] m IH]; simpl; constructor; auto.
  simpl. repeat split.
  - intros l ->. reflexivity.
  - eexists. split; [reflexivity | apply ser_syn_perm].
Qed.

Lemma norm_syn_lists m :
  Forall (fun ps => exists l, snd ps = SList l) m -> norm_syn m = m.
Proof.
  intro H. unfold norm_syn. apply map_id_on. intros [p s] Hi.
  rewrite Forall_forall in H. destruct (H _ Hi) as [l E]. simpl in *. subst s. reflexivity.
Qed.

(** * Costs *)
Lemma ev_of_name_name e : ev_of_name (ev_name e) = Some e.
Proof. destruct e; reflexivity. Qed.
Lemma ev_name_inj a b : ev_name a = ev_name b -> a = b.
Proof.
  intro E. assert (H : Some a = Some b) by (rewrite <- !ev_of_name_name, E; reflexivity).
  congruence.
Qed.

Theorem costs_roundtrip c :
  NoDup (map fst c) -> costs_from_dict (costs_to_dict c) = Some c.
Proof.
  intro Hn. unfold costs_to_dict. rewrite dict_of_nodup.
  - unfold costs_from_dict. induction c as [|[e v] c IH]; simpl; [reflexivity|].
    rewrite ev_of_name_name. simpl. inversion Hn; subst. rewrite IH; auto.
  - rewrite map_map. simpl. rewrite <- (map_map fst ev_name).
    apply NoDup_map_inj_on; auto. intros; apply ev_name_inj; auto.
Qed.

(** * The four classes.
    ete3's writer and reader are section variables; [ok] is the set of trees on
    which the pair is assumed to round-trip.  After the section these become
    explicit parameters and [read_write] an explicit premise of every theorem;
    [Properties/C11.v] instantiates them with the concrete printer / parser of
    [Model/Newick.v] and the proved [newick_roundtrip]. *)
Section Roundtrip.
  Variable write : tree -> string.
  Variable read : string -> option tree.
  Variable ok : tree -> Prop.
  Hypothesis read_write : forall t, ok t -> read (write t) = Some t.

  (** ** ReconciliationInput *)
  Record wf_rinput (x : rinput) : Prop := mk_wf_rinput {
    wf_oko : ok (otree x);
    wf_oks : ok (stree x);
    wf_no : NoDup (names (otree x));                      (* uniquely named nodes *)
    wf_ns : NoDup (names (stree x));
    wf_lm : wf_tmap (otree x) (stree x) (leafmap x);      (* a dict keyed by nodes *)
    wf_cs : NoDup (map fst (costs x))                     (* a dict keyed by events *)
  }.

  Definition dict_of_rinput (x : rinput) : drinput :=
    mkDRI (write (otree x)) (write (stree x))
          (named_tmap (otree x) (stree x) (leafmap x)) (costs_to_dict (costs x)).

  Lemma rinput_to_dict_spec x : wf_rinput x -> rinput_to_dict write x = Some (dict_of_rinput x).
  Proof.
    intros [_ _ Ho Hs Hm _]. unfold rinput_to_dict.
    rewrite (serialize_tree_mapping_spec _ _ _ Ho Hs Hm). reflexivity.
  Qed.

  Lemma rinput_from_dict_spec x ls :
    wf_rinput x -> rinput_from_dict read (mkDI (dict_of_rinput x) ls) = Some x.
  Proof.
    intros [Oo Os Ho Hs Hm Hc]. unfold rinput_from_dict. simpl.
    rewrite (read_write _ Oo), (read_write _ Os).
    rewrite (parse_named_tmap _ _ _ Ho Hs Hm), (costs_roundtrip _ Hc).
    destruct x; reflexivity.
  Qed.

  Theorem input_roundtrip_plain x :
    wf_rinput x ->
    exists d, rinput_to_dict write x = Some d /\
              forall ls, rinput_from_dict read (mkDI d ls) = Some x.
  Proof.
    intro H. exists (dict_of_rinput x). split.
    - apply rinput_to_dict_spec, H.
    - intro ls. apply rinput_from_dict_spec, H.
  Qed.

  (** ** SuperReconciliationInput *)
  Definition wf_sinput (x : sinput) : Prop :=
    wf_rinput (s_base x) /\ wf_smap (otree (s_base x)) (leafsyn x).
  Definition dict_of_sinput (x : sinput) : dinput :=
    mkDI (dict_of_rinput (s_base x)) (Some (named_smap (otree (s_base x)) (leafsyn x))).
  Definition back_sinput (x : sinput) : sinput := mkSI (s_base x) (norm_syn (leafsyn x)).

  Lemma sinput_to_dict_spec x : wf_sinput x -> sinput_to_dict write x = Some (dict_of_sinput x).
  Proof.
    intros [Hb Hl]. unfold sinput_to_dict.
    rewrite (rinput_to_dict_spec _ Hb), (serialize_synteny_mapping_spec _ _ (wf_no _ Hb) Hl).
    reflexivity.
  Qed.

  Lemma sinput_from_dict_spec x :
    wf_sinput x -> sinput_from_dict read (dict_of_sinput x) = Some (back_sinput x).
  Proof.
    intros [Hb Hl]. unfold sinput_from_dict, dict_of_sinput.
    rewrite (rinput_from_dict_spec _ _ Hb). simpl.
    rewrite (parse_named_smap _ _ (wf_no _ Hb) Hl). reflexivity.
  Qed.

  Lemma wf_back_sinput x : wf_sinput x -> wf_sinput (back_sinput x).
  Proof. intros [Hb Hl]. split; [exact Hb | apply wf_smap_norm, Hl]. Qed.
  Lemma dict_of_back_sinput x : dict_of_sinput (back_sinput x) = dict_of_sinput x.
  Proof. unfold dict_of_sinput, back_sinput. simpl. rewrite named_smap_norm. reflexivity. Qed.

  Theorem input_roundtrip_super x :
    wf_sinput x ->
    exists d, sinput_to_dict write x = Some d /\
              sinput_from_dict read d = Some (mkSI (s_base x) (norm_syn (leafsyn x))).
  Proof.
    intro H. exists (dict_of_sinput x). split.
    - apply sinput_to_dict_spec, H.
    - apply sinput_from_dict_spec, H.
  Qed.

  (** ** The [input] field of an output *)
  Definition wf_any_input (i : any_input) : Prop :=
    match i with Plain x => wf_rinput x | Super x => wf_sinput x end.
  Definition dict_of_any_input (i : any_input) : dinput :=
    match i with Plain x => mkDI (dict_of_rinput x) None | Super x => dict_of_sinput x end.

  Lemma wf_any_base i : wf_any_input i -> wf_rinput (base_of i).
  Proof. destruct i; simpl; [auto | intros [H _]; exact H]. Qed.
  Lemma any_input_to_dict_spec i :
    wf_any_input i -> any_input_to_dict write i = Some (dict_of_any_input i).
  Proof.
    destruct i as [x|x]; simpl; intro H.
    - rewrite (rinput_to_dict_spec _ H). reflexivity.
    - apply sinput_to_dict_spec, H.
  Qed.
  Lemma dict_of_any_input_base i :
    dict_of_any_input i = mkDI (dict_of_rinput (base_of i)) (d_leafsyn (dict_of_any_input i)).
  Proof. destruct i; reflexivity. Qed.

  (** ** ReconciliationOutput *)
  Definition wf_routput (x : routput) : Prop :=
    wf_any_input (r_in x) /\
    wf_tmap (otree (base_of (r_in x))) (stree (base_of (r_in x))) (omap x).
  Definition dict_of_routput (x : routput) : droutput :=
    mkDRO (dict_of_any_input (r_in x))
          (named_tmap (otree (base_of (r_in x))) (stree (base_of (r_in x))) (omap x)).
  (* the nested input comes back as a plain ReconciliationInput *)
  Definition back_routput (x : routput) : routput := mkRO (Plain (base_of (r_in x))) (omap x).

  Lemma routput_to_dict_spec x : wf_routput x -> routput_to_dict write x = Some (dict_of_routput x).
  Proof.
    intros [Hi Hm]. pose proof (wf_any_base _ Hi) as Hb. unfold routput_to_dict.
    rewrite (any_input_to_dict_spec _ Hi).
    rewrite (serialize_tree_mapping_spec _ _ _ (wf_no _ Hb) (wf_ns _ Hb) Hm). reflexivity.
  Qed.

  Lemma routput_from_dict_spec x :
    wf_routput x -> routput_from_dict read (dict_of_routput x) = Some (back_routput x).
  Proof.
    intros [Hi Hm]. pose proof (wf_any_base _ Hi) as Hb. unfold routput_from_dict, dict_of_routput.
    simpl d_in. rewrite dict_of_any_input_base, (rinput_from_dict_spec _ _ Hb). simpl.
    rewrite (parse_named_tmap _ _ _ (wf_no _ Hb) (wf_ns _ Hb) Hm). reflexivity.
  Qed.

  Lemma wf_back_routput x : wf_routput x -> wf_routput (back_routput x).
  Proof. intros [Hi Hm]. split; simpl; [apply wf_any_base, Hi | exact Hm]. Qed.

  (* the dictionary without the nested "leaf_syntenies" key *)
  Definition strip_dro (d : droutput) : droutput := mkDRO (mkDI (d_base (d_in d)) None) (d_omap d).
  Lemma dict_of_back_routput x : dict_of_routput (back_routput x) = strip_dro (dict_of_routput x).
  Proof.
    unfold dict_of_routput, back_routput, strip_dro. simpl.
    rewrite (dict_of_any_input_base (r_in x)). reflexivity.
  Qed.

  Theorem output_roundtrip_plain x :
    wf_routput x ->
    exists d, routput_to_dict write x = Some d /\
              routput_from_dict read d = Some (mkRO (Plain (base_of (r_in x))) (omap x)).
  Proof.
    intro H. exists (dict_of_routput x). split.
    - apply routput_to_dict_spec, H.
    - apply routput_from_dict_spec, H.
  Qed.

  (** ** SuperReconciliationOutput *)
  Definition wf_soutput (x : soutput) : Prop :=
    wf_routput (s_out x) /\ wf_smap (otree (base_of (r_in (s_out x)))) (syns x).
  Definition dict_of_soutput (x : soutput) : dsoutput :=
    mkDSO (dict_of_routput (s_out x))
          (named_smap (otree (base_of (r_in (s_out x)))) (syns x)) (Some (ordered x)).
  Definition back_soutput (x : soutput) : soutput :=
    mkSO (back_routput (s_out x)) (norm_syn (syns x)) (ordered x).

  Lemma soutput_to_dict_spec x : wf_soutput x -> soutput_to_dict write x = Some (dict_of_soutput x).
  Proof.
    intros [[Hi Hm] Hs]. pose proof (wf_any_base _ Hi) as Hb. unfold soutput_to_dict.
    rewrite (routput_to_dict_spec _ (conj Hi Hm)).
    rewrite (serialize_synteny_mapping_spec _ _ (wf_no _ Hb) Hs). reflexivity.
  Qed.

  Lemma soutput_from_dict_spec x :
    wf_soutput x -> soutput_from_dict read (dict_of_soutput x) = Some (back_soutput x).
  Proof.
    intros [[Hi Hm] Hs]. pose proof (wf_any_base _ Hi) as Hb.
    unfold soutput_from_dict, dict_of_soutput. simpl d_out.
    rewrite (routput_from_dict_spec _ (conj Hi Hm)). simpl.
    rewrite (parse_named_smap _ _ (wf_no _ Hb) Hs). reflexivity.
  Qed.

  Lemma wf_back_soutput x : wf_soutput x -> wf_soutput (back_soutput x).
  Proof.
    intros [Ho Hs]. split; simpl; [apply wf_back_routput, Ho | apply wf_smap_norm, Hs].
  Qed.

  Definition strip_dso (d : dsoutput) : dsoutput := mkDSO (strip_dro (d_out d)) (d_syns d) (d_ordered d).
  Lemma dict_of_back_soutput x : dict_of_soutput (back_soutput x) = strip_dso (dict_of_soutput x).
  Proof.
    unfold dict_of_soutput, back_soutput, strip_dso. simpl.
    rewrite dict_of_back_routput, named_smap_norm. reflexivity.
  Qed.

  Theorem output_roundtrip_super x :
    wf_soutput x ->
    exists d, soutput_to_dict write x = Some d /\
              soutput_from_dict read d =
                Some (mkSO (mkRO (Plain (base_of (r_in (s_out x)))) (omap (s_out x)))
                           (norm_syn (syns x)) (ordered x)).
  Proof.
    intro H. exists (dict_of_soutput x). split.
    - apply soutput_to_dict_spec, H.
    - apply soutput_from_dict_spec, H.
  Qed.

  (** ** Serialising again *)
  Theorem reserialise_fixpoint_plain_input x :
    wf_rinput x ->
    exists d x', rinput_to_dict write x = Some d /\
                 rinput_from_dict read (mkDI d None) = Some x' /\
                 rinput_to_dict write x' = Some d.
  Proof.
    intro H. exists (dict_of_rinput x), x. repeat split.
    - apply rinput_to_dict_spec, H.
    - apply rinput_from_dict_spec, H.
    - apply rinput_to_dict_spec, H.
  Qed.

  Theorem reserialise_fixpoint_super_input x :
    wf_sinput x ->
    exists d x', sinput_to_dict write x = Some d /\
                 sinput_from_dict read d = Some x' /\
                 sinput_to_dict write x' = Some d.
  Proof.
    intro H. exists (dict_of_sinput x), (back_sinput x). repeat split.
    - apply sinput_to_dict_spec, H.
    - apply sinput_from_dict_spec, H.
    - rewrite (sinput_to_dict_spec _ (wf_back_sinput _ H)), dict_of_back_sinput. reflexivity.
  Qed.

  (* every key is reproduced verbatim except the nested "leaf_syntenies", which the
     re-read (plain) input no longer has *)
  Theorem reserialise_fixpoint_plain_output x :
    wf_routput x ->
    exists d x', routput_to_dict write x = Some d /\
                 routput_from_dict read d = Some x' /\
                 routput_to_dict write x' = Some (strip_dro d).
  Proof.
    intro H. exists (dict_of_routput x), (back_routput x). repeat split.
    - apply routput_to_dict_spec, H.
    - apply routput_from_dict_spec, H.
    - rewrite (routput_to_dict_spec _ (wf_back_routput _ H)), dict_of_back_routput. reflexivity.
  Qed.

  Theorem reserialise_fixpoint_super_output x :
    wf_soutput x ->
    exists d x', soutput_to_dict write x = Some d /\
                 soutput_from_dict read d = Some x' /\
                 soutput_to_dict write x' = Some (strip_dso d).
  Proof.
    intro H. exists (dict_of_soutput x), (back_soutput x). repeat split.
    - apply soutput_to_dict_spec, H.
    - apply soutput_from_dict_spec, H.
    - rewrite (soutput_to_dict_spec _ (wf_back_soutput _ H)), dict_of_back_soutput. reflexivity.
  Qed.

  (** ** "Hence the same events and cost": whatever is computed from the preserved
      fields is unchanged.  [f] stands for [node_event] / [cost()], which read the
      trees, the leaf assignment, the costs and the species mapping; the labelling
      cost also reads the syntenies and the [ordered] flag. *)
  Theorem same_function_of_fields_plain {A} (f : rinput -> treemap -> A) x :
    wf_routput x ->
    exists d x', routput_to_dict write x = Some d /\
                 routput_from_dict read d = Some x' /\
                 f (base_of (r_in x')) (omap x') = f (base_of (r_in x)) (omap x).
  Proof.
    intro H. exists (dict_of_routput x), (back_routput x). repeat split.
    - apply routput_to_dict_spec, H.
    - apply routput_from_dict_spec, H.
  Qed.

  (* labellings made of sequences (every ordered labelling) come back verbatim *)
  Theorem same_function_of_fields_super {A} (f : rinput -> treemap -> synmap -> bool -> A) x :
    wf_soutput x ->
    Forall (fun ps => exists l, snd ps = SList l) (syns x) ->
    exists d x', soutput_to_dict write x = Some d /\
                 soutput_from_dict read d = Some x' /\
                 f (base_of (r_in (s_out x'))) (omap (s_out x')) (syns x') (ordered x') =
                 f (base_of (r_in (s_out x))) (omap (s_out x)) (syns x) (ordered x).
  Proof.
    intros H Hl. exists (dict_of_soutput x), (back_soutput x). repeat split.
    - apply soutput_to_dict_spec, H.
    - apply soutput_from_dict_spec, H.
    - simpl. rewrite (norm_syn_lists _ Hl). reflexivity.
  Qed.

  (* an output without nested leaf syntenies is reproduced verbatim *)
  Lemma strip_dro_plain x r :
    r_in x = Plain r -> strip_dro (dict_of_routput x) = dict_of_routput x.
  Proof. intro E. unfold strip_dro, dict_of_routput. rewrite E. reflexivity. Qed.
End Roundtrip.

(** * Instantiation with the concrete Newick printer / parser of [Model/Newick.v]:
    the premise about the writer/reader pair is discharged by [newick_roundtrip]. *)
Definition well_named (t : tree) : Prop := ok_tree t = true.
Definition nk_input_roundtrip_plain :=
  input_roundtrip_plain print_tree parse_tree well_named newick_roundtrip.
Definition nk_input_roundtrip_super :=
  input_roundtrip_super print_tree parse_tree well_named newick_roundtrip.
Definition nk_output_roundtrip_plain :=
  output_roundtrip_plain print_tree parse_tree well_named newick_roundtrip.
Definition nk_output_roundtrip_super :=
  output_roundtrip_super print_tree parse_tree well_named newick_roundtrip.
Definition nk_reserialise_fixpoint_plain_input :=
  reserialise_fixpoint_plain_input print_tree parse_tree well_named newick_roundtrip.
Definition nk_reserialise_fixpoint_super_input :=
  reserialise_fixpoint_super_input print_tree parse_tree well_named newick_roundtrip.
Definition nk_reserialise_fixpoint_plain_output :=
  reserialise_fixpoint_plain_output print_tree parse_tree well_named newick_roundtrip.
Definition nk_reserialise_fixpoint_super_output :=
  reserialise_fixpoint_super_output print_tree parse_tree well_named newick_roundtrip.
Definition nk_same_function_of_fields_plain (A : Type) :=
  same_function_of_fields_plain print_tree parse_tree well_named newick_roundtrip (A := A).
Definition nk_same_function_of_fields_super (A : Type) :=
  same_function_of_fields_super print_tree parse_tree well_named newick_roundtrip (A := A).
