(** Correctness of the unordered super-reconciliation solver model ([Model/Uspfs.v], USPFS /
    SuperDTL), first half:
    - family sets; the gain sets and LCA sets computed by [annotate] ([gain_lca_sets_spec]);
    - generic facts about entries, the five aggregators of a child, one [combine];
    - one cell of the table: lower bound, value of a tag, the clean recurrence ([ucell_value]);
    - the table ([utable_value]), the decoding, validity of every returned labelled tree with no
      hypothesis on the unit costs ([udecode_valid], [uspfs_some], [uspfs_valid], [uvalid_scope]);
    - the optimiser's one-node charge against the evaluator's ([uocost_ecost]).
    The second half is [Proofs/UspfsFinal.v]. *)
From Coq Require Import List Bool Arith ZArith NArith Lia.
From SR Require Import Base.PathB Base.Ext Model.Entry Model.Recon Model.LcaRec Model.Thl Model.Uspfs
  Proofs.PathFacts Proofs.ReconProofs Proofs.EntryProofs Proofs.DpProofs Proofs.LcaProofs Proofs.ExhProofs
  Proofs.ThlProofs Proofs.ThlFinal Proofs.LabelCostProofs.
Import ListNotations.
Local Open Scope Z_scope.

(** * part 1: family sets, gain sets and LCA sets *)
(** * family sets: strictly increasing lists *)
Fixpoint ssorted (l : list fam) : Prop :=
  match l with [] => True | x :: l' => (forall y, In y l' -> (x < y)%N) /\ ssorted l' end.

Lemma In_set_add x l y : In y (set_add x l) <-> y = x \/ In y l.
Proof.
  induction l as [|z l IH]; simpl.
  - split; [intros [H|[]]; auto|intros [H|[]]; auto].
  - destruct (N.ltb_spec x z).
    + simpl. split; [intros [H1|[H1|H1]]; auto|intros [H1|[H1|H1]]; auto].
    + destruct (N.eqb_spec x z) as [->|NE].
      * simpl. split; [auto|intros [->|H1]; auto].
      * simpl. rewrite IH. split; [intros [H1|[H1|H1]]; auto|intros [H1|[H1|H1]]; auto].
Qed.

Lemma ssorted_set_add x l : ssorted l -> ssorted (set_add x l).
Proof.
  induction l as [|z l IH]; simpl.
  - intros _. split; [intros y []|exact I].
  - intros [Hz Hl]. destruct (N.ltb_spec x z).
    + simpl. split; [|split; auto]. intros y [<-|Hy]; auto. specialize (Hz y Hy). lia.
    + destruct (N.eqb_spec x z) as [->|NE]; simpl; [split; auto|].
      split; [|auto]. intros y Hy. apply In_set_add in Hy as [->|Hy]; [lia|auto].
Qed.

Lemma In_set_of l y : In y (set_of l) <-> In y l.
Proof.
  induction l as [|x l IH]; simpl; [tauto|]. rewrite In_set_add, IH. split; intros [H|H]; auto.
Qed.
Lemma ssorted_set_of l : ssorted (set_of l).
Proof. induction l as [|x l IH]; simpl; [exact I|]. now apply ssorted_set_add. Qed.

Lemma In_set_union a b y : In y (set_union a b) <-> In y a \/ In y b.
Proof.
  unfold set_union. induction a as [|x a IH]; simpl; [tauto|]. rewrite In_set_add, IH.
  split; [intros [H|[H|H]]; auto|intros [[H|H]|H]; auto].
Qed.
Lemma ssorted_set_union a b : ssorted b -> ssorted (set_union a b).
Proof. intros Hb. unfold set_union. induction a as [|x a IH]; simpl; auto. now apply ssorted_set_add. Qed.

Lemma ssorted_filter p l : ssorted l -> ssorted (filter p l).
Proof.
  induction l as [|x l IH]; simpl; auto. intros [Hx Hl]. destruct (p x); simpl; auto.
  split; auto. intros y Hy. apply filter_In in Hy as [Hy _]. auto.
Qed.
Lemma In_set_diff a b y : In y (set_diff a b) <-> In y a /\ ~ In y b.
Proof.
  unfold set_diff. rewrite filter_In. rewrite negb_true_iff.
  split; intros [H1 H2]; split; auto.
  - intros H. apply memf_In in H. unfold memf in H. congruence.
  - destruct (existsb (fam_eqb y) b) eqn:E; auto. exfalso. apply H2. now apply memf_In.
Qed.
Lemma ssorted_set_diff a b : ssorted a -> ssorted (set_diff a b).
Proof. apply ssorted_filter. Qed.

Lemma ssorted_notin x l : (forall y, In y l -> (x < y)%N) -> ~ In x l.
Proof. intros H I. specialize (H x I). lia. Qed.

(* a strictly increasing list is determined by its elements *)
Lemma ssorted_ext a : forall b, ssorted a -> ssorted b -> (forall x, In x a <-> In x b) -> a = b.
Proof.
  induction a as [|x a IH]; intros [|y b] Ha Hb E; auto.
  - exfalso. apply (proj2 (E y)). now left.
  - exfalso. apply (proj1 (E x)). now left.
  - destruct Ha as [Hx Ha], Hb as [Hy Hb].
    assert (x = y) as ->.
    { destruct (proj1 (E x) (or_introl eq_refl)) as [->|I1]; auto.
      destruct (proj2 (E y) (or_introl eq_refl)) as [->|I2]; auto.
      specialize (Hx y I2). specialize (Hy x I1). lia. }
    f_equal. apply IH; auto. intros z. split; intros I.
    + destruct (proj1 (E z) (or_intror I)) as [<-|]; auto. exfalso. now apply (ssorted_notin y a Hx).
    + destruct (proj2 (E z) (or_intror I)) as [<-|]; auto. exfalso. now apply (ssorted_notin y b Hy).
Qed.

Lemma ssorted_NoDup l : ssorted l -> NoDup l.
Proof.
  induction l as [|x l IH]; simpl; [constructor|]. intros [Hx Hl]. constructor; auto.
  now apply ssorted_notin.
Qed.

Lemma subset_spec a b : subset a b = true <-> forall x, In x a -> In x b.
Proof.
  unfold subset. rewrite forallb_forall. split; intros H x Hx.
  - apply memf_In. apply H, Hx.
  - apply memf_In. auto.
Qed.

(** * carriers and families *)
Lemma carriers_leaf f sp syn : carriers f (OLeaf sp syn) = if memf f syn then 1%nat else 0%nat.
Proof. reflexivity. Qed.

Lemma In_families f o : In f (families o) <-> (0 < carriers f o)%nat.
Proof.
  induction o as [sp syn|a IHa b IHb]; cbn [families carriers].
  - rewrite In_set_of. fold (memf f syn). destruct (memf f syn) eqn:E.
    + apply memf_In in E. split; auto.
    + split; [|lia]. intros H. apply memf_In in H. congruence.
  - rewrite In_set_union, IHa, IHb. lia.
Qed.
Lemma ssorted_families o : ssorted (families o).
Proof. destruct o; cbn [families]; [apply ssorted_set_of|apply ssorted_set_union].
  induction o2; cbn [families]; [apply ssorted_set_of|now apply ssorted_set_union].
Qed.

(** * the annotation, in terms of carrier counts *)
(* no child subtree holds every carrier: the gain node is not strictly below *)
Definition top (total : fam -> nat) (o : otree) (f : fam) : bool :=
  match o with
  | OLeaf _ _ => true
  | ONode a b => Nat.ltb (carriers f a) (total f) && Nat.ltb (carriers f b) (total f)
  end.
Definition needed_here (total : fam -> nat) (o : otree) (f : fam) : bool :=
  Nat.ltb 0 (carriers f o) && top total o f.

Lemma gained_here_eq total o f :
  gained_here total o f = Nat.eqb (carriers f o) (total f) && needed_here total o f.
Proof. unfold gained_here, needed_here, top. destruct o; rewrite ?andb_true_r, ?andb_assoc; reflexivity. Qed.

Fixpoint oshape (o : otree) (u : utree) : Prop :=
  match o, u with
  | OLeaf sp _, ULeaf sp' _ _ => sp = sp'
  | ONode a b, UNode _ _ ua ub => oshape a ua /\ oshape b ub
  | _, _ => False
  end.

Section AnnotSpec.
  Variable total : fam -> nat.

  (* [o] is a part of the tree counted by [total] *)
  Definition bounded (o : otree) : Prop := forall f, (carriers f o <= total f)%nat.
  Lemma bounded_l a b : bounded (ONode a b) -> bounded a.
  Proof. intros H f. specialize (H f). simpl in H. lia. Qed.
  Lemma bounded_r a b : bounded (ONode a b) -> bounded b.
  Proof. intros H f. specialize (H f). simpl in H. lia. Qed.

  Lemma annotate_shape o : oshape o (annotate total o).
  Proof. induction o; simpl; auto. Qed.

  Lemma In_u_gain o f : In f (u_gain (annotate total o)) <-> gained_here total o f = true.
  Proof.
    destruct o as [sp syn|a b]; cbn [annotate u_gain]; rewrite filter_In.
    - split; [tauto|]. intros H. split; auto. rewrite gained_here_eq in H.
      apply andb_true_iff in H as [_ H]. unfold needed_here in H. apply andb_true_iff in H as [H _].
      apply Nat.ltb_lt in H. change (set_of syn) with (families (OLeaf sp syn)). now apply In_families.
    - split; [tauto|]. intros H. split; auto. rewrite gained_here_eq in H.
      apply andb_true_iff in H as [_ H]. unfold needed_here in H. apply andb_true_iff in H as [H _].
      apply Nat.ltb_lt in H. now apply In_families.
  Qed.

  Lemma In_u_lca o : bounded o -> forall f, In f (u_lca (annotate total o)) <-> needed_here total o f = true.
  Proof.
    induction o as [sp syn|a IHa b IHb]; intros B f.
    - cbn [annotate u_lca]. change (set_of syn) with (families (OLeaf sp syn)). rewrite In_families.
      unfold needed_here, top. rewrite andb_true_r, Nat.ltb_lt. tauto.
    - cbn [annotate u_lca]. cbv zeta. rewrite In_set_diff, !In_set_union, !In_u_gain, !gained_here_eq.
      rewrite (IHa (bounded_l _ _ B)), (IHb (bounded_r _ _ B)).
      pose proof (B f) as Bf. cbn [carriers] in Bf.
      unfold needed_here. cbn [top carriers].
      assert (forall o', (carriers f o' < total f)%nat -> top total o' f = true) as TOP.
      { intros [sp syn|a' b'] H; cbn [top]; auto. cbn [carriers] in H.
        apply andb_true_iff. split; apply Nat.ltb_lt; lia. }
      destruct (Nat.ltb_spec 0 (carriers f a)) as [A0|A0];
      destruct (Nat.ltb_spec 0 (carriers f b)) as [B0|B0];
      destruct (Nat.ltb_spec (carriers f a) (total f)) as [A1|A1];
      destruct (Nat.ltb_spec (carriers f b) (total f)) as [B1|B1];
      destruct (Nat.ltb_spec 0 (carriers f a + carriers f b)) as [C0|C0];
      destruct (Nat.eqb_spec (carriers f a) (total f)) as [A2|A2];
      destruct (Nat.eqb_spec (carriers f b) (total f)) as [B2|B2];
      try lia; rewrite ?(TOP a A1), ?(TOP b B1); cbn [andb orb];
      try (split; [intros [[H|H] N]; (discriminate || (exfalso; apply N; auto) || auto)|discriminate]);
      try (split; [auto|intros _; split; [auto|intros [H|H]; discriminate]]);
      try (destruct (top total a f), (top total b f); cbn; split; try discriminate; try tauto;
           intros [[H|H] N]; try discriminate; exfalso; apply N; auto).
  Qed.
End AnnotSpec.

(** * positions in the object tree: the gain node of a family is the LCA of its carriers *)
Fixpoint osub (o : otree) (p : path) {struct p} : option otree :=
  match p with
  | [] => Some o
  | b :: p' => match o with ONode a c => osub (if b then c else a) p' | OLeaf _ _ => None end
  end.
(* the leaf at position [q] carries [f] *)
Definition carrier_at (O : otree) (f : fam) (q : path) : Prop :=
  exists sp syn, osub O q = Some (OLeaf sp syn) /\ In f syn.

Lemma osub_app O p q : osub O (p ++ q) = match osub O p with Some o => osub o q | None => None end.
Proof.
  revert O; induction p as [|b p IH]; intros O; [reflexivity|].
  destruct O as [sp syn|a c]; [reflexivity|]. rewrite <- app_comm_cons. cbn [osub]. apply IH.
Qed.

Lemma carrier_at_node a c f q : carrier_at (ONode a c) f q <->
  exists b q', q = b :: q' /\ carrier_at (if b then c else a) f q'.
Proof.
  unfold carrier_at. split.
  - intros [sp [syn [H I]]]. destruct q as [|b q']; [discriminate|]. exists b, q'. split; eauto.
  - intros [b [q' [-> [sp [syn [H I]]]]]]. exists sp, syn. auto.
Qed.
Lemma carrier_at_leaf sp syn f q : carrier_at (OLeaf sp syn) f q <-> q = [] /\ In f syn.
Proof.
  unfold carrier_at. split.
  - intros [sp' [syn' [H I]]]. destruct q; [|discriminate]. inversion H; subst. auto.
  - intros [-> I]. exists sp, syn. auto.
Qed.

Lemma carriers_pos O f : (0 < carriers f O)%nat <-> exists q, carrier_at O f q.
Proof.
  induction O as [sp syn|a IHa c IHc].
  - rewrite carriers_leaf. destruct (memf f syn) eqn:E.
    + apply memf_In in E. split; [|lia]. intros _. exists []. apply carrier_at_leaf. auto.
    + split; [lia|]. intros [q H]. apply carrier_at_leaf in H as [_ H]. apply memf_In in H. congruence.
  - cbn [carriers]. split.
    + intros H. assert ((0 < carriers f a)%nat \/ (0 < carriers f c)%nat) as [H1|H1] by lia.
      * apply IHa in H1 as [q Hq]. exists (false :: q). apply carrier_at_node. exists false, q. auto.
      * apply IHc in H1 as [q Hq]. exists (true :: q). apply carrier_at_node. exists true, q. auto.
    + intros [q H]. apply carrier_at_node in H as [b [q' [-> H]]]. destruct b.
      * assert (0 < carriers f c)%nat by (apply IHc; eauto). lia.
      * assert (0 < carriers f a)%nat by (apply IHa; eauto). lia.
Qed.

Lemma carriers_zero O f : carriers f O = 0%nat <-> forall q, ~ carrier_at O f q.
Proof.
  split.
  - intros H q Hq. assert (0 < carriers f O)%nat by (apply carriers_pos; eauto). lia.
  - intros H. destruct (carriers f O) eqn:E; auto. exfalso.
    assert (0 < carriers f O)%nat as P by lia. apply carriers_pos in P as [q Hq]. eapply H; eauto.
Qed.

(* the subtree at [p] holds all carriers iff every carrier position extends [p] *)
Lemma carriers_sub f : forall p O o, osub O p = Some o ->
  (carriers f o <= carriers f O)%nat /\
  (carriers f o = carriers f O <-> forall q, carrier_at O f q -> anc p q = true).
Proof.
  induction p as [|b p IH]; intros O o H.
  - inversion H; subst. split; [lia|]. split; auto.
  - destruct O as [sp syn|a c]; [discriminate|]. cbn [osub] in H.
    destruct (IH _ _ H) as [Le Eq]. cbn [carriers]. destruct b.
    + split; [lia|]. split.
      * intros E. assert (carriers f o = carriers f c) as E1 by lia. assert (carriers f a = 0%nat) as E0 by lia.
        intros q Hq. apply carrier_at_node in Hq as [b [q' [-> Hq]]]. destruct b.
        -- simpl. apply (proj1 Eq E1 q' Hq).
        -- exfalso. eapply (proj1 (carriers_zero a f)); eauto.
      * intros A. assert (carriers f a = 0%nat) as E0.
        { apply carriers_zero. intros q Hq. specialize (A (false :: q)). simpl in A.
          assert (false = true) by (apply A; apply carrier_at_node; exists false, q; auto). discriminate. }
        assert (carriers f o = carriers f c) as E1.
        { apply Eq. intros q Hq. specialize (A (true :: q)). simpl in A. apply A.
          apply carrier_at_node. exists true, q. auto. }
        lia.
    + split; [lia|]. split.
      * intros E. assert (carriers f o = carriers f a) as E1 by lia. assert (carriers f c = 0%nat) as E0 by lia.
        intros q Hq. apply carrier_at_node in Hq as [b [q' [-> Hq]]]. destruct b.
        -- exfalso. eapply (proj1 (carriers_zero c f)); eauto.
        -- simpl. apply (proj1 Eq E1 q' Hq).
      * intros A. assert (carriers f c = 0%nat) as E0.
        { apply carriers_zero. intros q Hq. specialize (A (true :: q)). simpl in A.
          assert (false = true) by (apply A; apply carrier_at_node; exists true, q; auto). discriminate. }
        assert (carriers f o = carriers f a) as E1.
        { apply Eq. intros q Hq. specialize (A (false :: q)). simpl in A. apply A.
          apply carrier_at_node. exists false, q. auto. }
        lia.
Qed.

Lemma carrier_at_sub O f p o q : osub O p = Some o -> (carrier_at O f (p ++ q) <-> carrier_at o f q).
Proof. intros H. unfold carrier_at. rewrite osub_app, H. tauto. Qed.

Lemma osub_bounded O p o : osub O p = Some o -> bounded (fun f => carriers f O) o.
Proof. intros H f. apply (carriers_sub f p O o H). Qed.

Definition ototal (O : otree) : fam -> nat := fun f => carriers f O.

(** the gain set of the node at [p]: the families whose carriers have [p] as their LCA *)
Definition is_lca_of_carriers (O : otree) (f : fam) (p : path) : Prop :=
  (exists q, carrier_at O f q) /\
  (forall q, carrier_at O f q -> anc p q = true) /\
  (forall p', (forall q, carrier_at O f q -> anc p' q = true) -> anc p' p = true).

Theorem gained_here_spec O p o f : osub O p = Some o ->
  (gained_here (ototal O) o f = true <-> is_lca_of_carriers O f p).
Proof.
  intros H. destruct (carriers_sub f p O o H) as [Le Eq]. rewrite gained_here_eq. unfold needed_here, ototal.
  rewrite !andb_true_iff, Nat.eqb_eq, Nat.ltb_lt. split.
  - intros [E [P T]]. split; [|split].
    + apply carriers_pos. lia.
    + now apply Eq.
    + intros p' A. destruct o as [sp syn|a c].
      * (* the leaf at [p] is the only carrier *)
        apply A. rewrite <- (app_nil_r p). apply (carrier_at_sub O f p _ [] H).
        apply carrier_at_leaf. split; auto. rewrite carriers_leaf in P.
        destruct (memf f syn) eqn:M; [now apply memf_In|lia].
      * cbn [top carriers] in *. apply andb_true_iff in T as [T1 T2]. apply Nat.ltb_lt in T1, T2.
        assert (0 < carriers f a)%nat as Pa by lia. assert (0 < carriers f c)%nat as Pc by lia.
        apply carriers_pos in Pa as [qa Ha]. apply carriers_pos in Pc as [qc Hc].
        assert (carrier_at O f (p ++ false :: qa)) as Ca.
        { apply (carrier_at_sub O f p _ _ H). apply carrier_at_node. exists false, qa. auto. }
        assert (carrier_at O f (p ++ true :: qc)) as Cc.
        { apply (carrier_at_sub O f p _ _ H). apply carrier_at_node. exists true, qc. auto. }
        pose proof (lcp_greatest p' _ _ (A _ Ca) (A _ Cc)) as L. rewrite lcp_app in L. simpl in L.
        now rewrite app_nil_r in L.
  - intros [[q0 C0] [A D]].
    assert (carriers f o = carriers f O) as E by now apply Eq.
    assert (0 < carriers f O)%nat as P by (apply carriers_pos; eauto).
    split; [exact E|]. split; [lia|].
    destruct o as [sp syn|a c]; cbn [top]; auto.
    apply andb_true_iff. split; apply Nat.ltb_lt.
    + destruct (carriers_sub f (p ++ [false]) O a) as [Le1 Eq1]; [rewrite osub_app, H; reflexivity|].
      assert (carriers f a <> carriers f O) as NE; [|lia].
      intros X. pose proof (D _ (proj1 Eq1 X)) as X0. clear X. rename X0 into X. apply anc_app_self_nil in X. discriminate.
    + destruct (carriers_sub f (p ++ [true]) O c) as [Le1 Eq1]; [rewrite osub_app, H; reflexivity|].
      assert (carriers f c <> carriers f O) as NE; [|lia].
      intros X. pose proof (D _ (proj1 Eq1 X)) as X0. clear X. rename X0 into X. apply anc_app_self_nil in X. discriminate.
Qed.

(* a carried family has a gain node, above every node that needs it *)
Lemma gain_node_above f total : forall p O o, bounded total O -> carriers f O = total f ->
  osub O p = Some o -> needed_here total o f = true ->
  exists g og, osub O g = Some og /\ gained_here total og f = true /\ anc g p = true.
Proof.
  induction p as [|b p IH]; intros O o B E H N.
  - inversion H; subst. exists [], o. repeat split; auto. rewrite gained_here_eq, N, E, Nat.eqb_refl. reflexivity.
  - destruct O as [sp syn|a c]; [discriminate|]. cbn [osub] in H.
    set (sub := if b then c else a) in *.
    assert ((carriers f o <= carriers f sub)%nat) as Le by apply (carriers_sub f p sub o H).
    assert ((0 < carriers f o)%nat) as Po.
    { unfold needed_here in N. apply andb_true_iff in N as [N _]. now apply Nat.ltb_lt in N. }
    destruct (Nat.eq_dec (carriers f sub) (total f)) as [Es|Ns].
    + destruct (IH sub o) as [g [og [Hg [Gg Ag]]]]; auto.
      { unfold sub. destruct b; [eapply bounded_r|eapply bounded_l]; eauto. }
      exists (b :: g), og. repeat split; auto. simpl. now rewrite eqb_reflx, Ag.
    + exists [], (ONode a c). repeat split; auto.
      rewrite gained_here_eq, E, Nat.eqb_refl. unfold needed_here. cbn [carriers top andb] in *.
      pose proof (B f) as Bf. cbn [carriers] in Bf.
      apply andb_true_iff; split; [apply Nat.ltb_lt|apply andb_true_iff; split; apply Nat.ltb_lt];
        unfold sub in *; destruct b; lia.
Qed.

(** the LCA set of the node at [p]: the families carried below [p] whose gain node is [p]
    or above it *)
Theorem needed_here_spec O p o f : osub O p = Some o ->
  (needed_here (ototal O) o f = true <->
   (exists q, carrier_at O f q /\ anc p q = true) /\
   (exists g, is_lca_of_carriers O f g /\ anc g p = true)).
Proof.
  intros H. split.
  - intros N. split.
    + pose proof N as N'. unfold needed_here in N'. apply andb_true_iff in N' as [N' _]. apply Nat.ltb_lt in N'.
      apply carriers_pos in N' as [q Hq]. exists (p ++ q). split; [|apply anc_self_app].
      now apply (carrier_at_sub O f p o q H).
    + destruct (gain_node_above f (ototal O) p O o) as [g [og [Hg [Gg Ag]]]]; auto.
      { intros f'. unfold ototal. lia. }
      exists g. split; auto. now apply (gained_here_spec O g og f Hg).
  - intros [[q [Cq Aq]] [g [Lg Ag]]].
    apply is_prefix_spec in Aq as [q' ->]. apply (carrier_at_sub O f p o q' H) in Cq.
    assert (0 < carriers f o)%nat as P by (apply carriers_pos; eauto).
    unfold needed_here. apply andb_true_iff. split; [now apply Nat.ltb_lt|].
    apply is_prefix_spec in Ag as [d ->]. rewrite osub_app in H.
    destruct (osub O g) as [og|] eqn:Hg; [|discriminate].
    apply (gained_here_spec O g og f Hg) in Lg. rewrite gained_here_eq in Lg.
    apply andb_true_iff in Lg as [_ Lg]. unfold needed_here in Lg. apply andb_true_iff in Lg as [_ Tg].
    destruct d as [|b d].
    + inversion H; subst. exact Tg.
    + destruct og as [sp syn|a c]; [discriminate|]. cbn [osub] in H. cbn [top] in Tg.
      apply andb_true_iff in Tg as [T1 T2]. apply Nat.ltb_lt in T1, T2.
      assert (carriers f o <= carriers f (if b then c else a))%nat as Le by apply (carriers_sub f d _ o H).
      destruct o as [sp' syn'|a' c']; cbn [top]; auto. cbn [carriers] in Le.
      apply andb_true_iff; split; apply Nat.ltb_lt; destruct b; lia.
Qed.

(** theorem 1: the annotation of [Model/Uspfs.v] computes these sets, as strictly increasing lists *)
Fixpoint usub (u : utree) (p : path) {struct p} : option utree :=
  match p with
  | [] => Some u
  | b :: p' => match u with UNode _ _ a c => usub (if b then c else a) p' | ULeaf _ _ _ => None end
  end.

Lemma usub_annotate total : forall p O o, osub O p = Some o -> usub (annotate total O) p = Some (annotate total o).
Proof.
  induction p as [|b p IH]; intros O o H.
  - inversion H; subst. reflexivity.
  - destruct O as [sp syn|a c]; [discriminate|]. cbn [osub annotate usub] in *. cbv zeta. destruct b; auto.
Qed.

Lemma ssorted_u_gain total o : ssorted (u_gain (annotate total o)).
Proof. destruct o; cbn [annotate u_gain]; apply ssorted_filter; [apply ssorted_set_of|apply ssorted_families]. Qed.
Lemma ssorted_u_lca total o : ssorted (u_lca (annotate total o)).
Proof.
  destruct o as [sp syn|a b]; cbn [annotate u_lca]; [apply ssorted_set_of|].
  apply ssorted_set_diff, ssorted_set_union.
  destruct b; cbn [annotate u_lca]; [apply ssorted_set_of|]. apply ssorted_set_diff, ssorted_set_union.
  clear. induction b2; cbn [annotate u_lca]; [apply ssorted_set_of|]. now apply ssorted_set_diff, ssorted_set_union.
Qed.

Theorem gain_lca_sets_spec O p o : osub O p = Some o ->
  exists u, usub (annotate_top O) p = Some u /\ oshape o u /\
    ssorted (u_gain u) /\ ssorted (u_lca u) /\
    (forall f, In f (u_gain u) <-> is_lca_of_carriers O f p) /\
    (forall f, In f (u_lca u) <->
       (exists q, carrier_at O f q /\ anc p q = true) /\
       (exists g, is_lca_of_carriers O f g /\ anc g p = true)).
Proof.
  intros H. exists (annotate (ototal O) o). split; [now apply usub_annotate|].
  split; [apply annotate_shape|]. split; [apply ssorted_u_gain|]. split; [apply ssorted_u_lca|]. split.
  - intros f. rewrite In_u_gain. now apply gained_here_spec.
  - intros f. rewrite (In_u_lca (ototal O) o (osub_bounded O p o H)). now apply needed_here_spec.
Qed.

(** * part 2: aggregators, combinations and one cell of the USPFS table *)
Lemma uassign_eqb_spec a b : reflect (a = b) (uassign_eqb a b).
Proof.
  destruct a as [a1 a2], b as [b1 b2]. unfold uassign_eqb. simpl.
  destruct (path_eqb_spec a1 b1); simpl; [|constructor; congruence].
  destruct a2, b2; simpl; constructor; congruence.
Qed.
Lemma utag_eqb_spec a b : reflect (a = b) (utag_eqb a b).
Proof.
  destruct a as [a1 a2], b as [b1 b2]. unfold utag_eqb. simpl.
  destruct (uassign_eqb_spec a1 b1); simpl; [|constructor; congruence].
  destruct (uassign_eqb_spec a2 b2); constructor; congruence.
Qed.
Lemma ltree_eqb_spec : forall a b, reflect (a = b) (ltree_eqb a b).
Proof.
  induction a as [s x|s x a1 IH1 a2 IH2]; intros [t y|t y b1 b2]; simpl; try (constructor; congruence).
  - destruct (path_eqb_spec s t); simpl; [|constructor; congruence].
    destruct (list_eq_dec N.eq_dec x y); constructor; congruence.
  - destruct (path_eqb_spec s t); simpl; [|constructor; congruence].
    destruct (list_eq_dec N.eq_dec x y); simpl; [|constructor; congruence].
    destruct (IH1 b1); simpl; [|constructor; congruence].
    destruct (IH2 b2); constructor; congruence.
Qed.

Lemma ext_add_0_r a : ext_add a (Fin 0) = a.
Proof. destruct a; simpl; auto. f_equal. lia. Qed.

(** ** an entry fed a list of candidates *)
Section UCands.
  Context {T : Type} (T_eqb : T -> T -> bool).
  Hypothesis T_eqb_spec : forall x y, reflect (x = y) (T_eqb x y).
  Variables (rp : ret) (cs : list (ext * option T)).
  Notation E := (update T_eqb MIN rp (default_entry MIN) cs).

  Lemma ucs_attained : cs <> [] -> exists v ot, In (v, ot) cs /\ v = val E.
  Proof.
    intros N. destruct (ext_eqb (val E) PInf) eqn:Q.
    - apply ext_eqb_eq in Q. destruct cs as [|[v ot] l] eqn:C; [congruence|]. exists v, ot. split; [now left|].
      pose proof (upd_le T_eqb rp cs v ot) as L. rewrite C in L. specialize (L (or_introl eq_refl)).
      rewrite Q in *. now apply ele_PInf_inv.
    - assert (val E <> PInf) as NE by (intros X; rewrite X in Q; discriminate).
      destruct (upd_attained T_eqb rp cs NE) as [ot I]. eauto.
  Qed.

  Lemma ucs_tags_nonempty : rp <> RNONE -> cs <> [] ->
    (forall v ot, In (v, ot) cs -> exists t, ot = Some t) -> tags E <> [].
  Proof.
    intros N NE Tg. destruct (ucs_attained NE) as [v [ot [I Ev]]]. destruct (Tg v ot I) as [t ->].
    apply (upd_tags_nonempty T_eqb T_eqb_spec rp cs t N). now rewrite <- Ev.
  Qed.
End UCands.

(** ** one [combine] of two aggregators, iterated as candidates *)
Section UComb.
  Variables (rp : ret) (k : ext) (A B : entry uassign).
  Notation C := (combine utag_eqb MIN rp A B (ucomb k (val A) (val B))).
  Notation v := (ext_add (ext_add k (val A)) (val B)).

  Lemma ucomb2_eq : ucomb2 rp k A B = cands C.
  Proof. reflexivity. Qed.

  Lemma ucomb_sound w l r : In (w, Some (l, r)) (ucomb2 rp k A B) -> In l (tags A) /\ In r (tags B) /\ w = v.
  Proof.
    unfold ucomb2, cands. intros H. apply in_map_iff in H as [[l' r'] [E I]]. inversion E; subst. clear E.
    unfold combine in *. apply (upd_tags_sound utag_eqb utag_eqb_spec) in I.
    apply (In_pairs (U := utag)) in I as [a [b [Ha [Hb E]]]]. unfold ucomb in E.
    inversion E; subst. repeat split; auto.
  Qed.

  Lemma ucomb_some w ot : In (w, ot) (ucomb2 rp k A B) -> exists t, ot = Some t.
  Proof. unfold ucomb2, cands. intros H. apply in_map_iff in H as [t [E _]]. inversion E. eauto. Qed.

  Lemma ucomb_nonempty : rp <> RNONE -> tags A <> [] -> tags B <> [] -> exists t, In (v, Some t) (ucomb2 rp k A B).
  Proof.
    intros N NA NB.
    assert (forall w ot, In (w, ot) (pairs A B (ucomb k (val A) (val B))) -> w = v /\ exists t, ot = Some t) as Same.
    { intros w ot I. apply (In_pairs (U := utag)) in I as [x [y [_ [_ E]]]]. unfold ucomb in E. inversion E. eauto. }
    assert (pairs A B (ucomb k (val A) (val B)) <> []) as NP.
    { unfold pairs. destruct (tags A) as [|a ta]; [congruence|]. destruct (tags B) as [|b tb]; [congruence|]. discriminate. }
    assert (tags C <> []) as NC.
    { unfold combine. fold (pairs A B (ucomb k (val A) (val B))).
      apply (ucs_tags_nonempty utag_eqb utag_eqb_spec rp _ N NP). intros w ot I. now apply Same in I. }
    destruct (tags C) as [|t tc] eqn:ET; [congruence|]. exists t.
    assert (In (val C, Some t) (ucomb2 rp k A B)) as X by (unfold ucomb2, cands; rewrite ET; now left).
    destruct t as [l r]. pose proof (ucomb_sound _ _ _ X) as [_ [_ E]]. now rewrite <- E.
  Qed.
End UComb.

Section UCombAll.
  Variables (k : ext) (A B : entry uassign).
  Notation C := (combine utag_eqb MIN RALL A B (ucomb k (val A) (val B))).
  Notation v := (ext_add (ext_add k (val A)) (val B)).

  Lemma ucomb_complete l r : In l (tags A) -> In r (tags B) -> In (v, Some (l, r)) (ucomb2 RALL k A B).
  Proof.
    intros Hl Hr.
    assert (In (l, r) (tags C)) as I.
    { apply (combine_tags_all utag_eqb utag_eqb_spec). cbv zeta. exists l, r. repeat split; auto.
      unfold ucomb at 1. f_equal.
      pose proof (combine_opt utag_eqb MIN RALL A B (ucomb k (val A) (val B))) as CO. cbv zeta in CO.
      destruct CO as [[E|I] Le].
      - specialize (Le l r Hl Hr). cbn [ucomb fst init_val] in *.
        rewrite <- E in Le |- *. clear E. revert Le.
        generalize (ext_add (ext_add k (val A)) (val B)). intros [|z|]; simpl; congruence.
      - apply in_map_iff in I as [[w ot] [E I]]. simpl in E. subst w.
        apply (In_pairs (U := utag)) in I as [a [b [_ [_ E]]]]. unfold ucomb in E. now inversion E. }
    unfold ucomb2, cands. apply in_map_iff. exists (l, r). split; auto. f_equal.
    assert (In (val C, Some (l, r)) (ucomb2 RALL k A B)) as X by (apply in_map_iff; exists (l, r); auto).
    apply (ucomb_sound RALL k A B) in X. tauto.
  Qed.
End UCombAll.

(** ** a cell written once through the proxy *)
Section UFirst.
  Variables (rp : ret) (cs : list (ext * option utag)).
  Hypothesis NN : forall w ot, In (w, ot) cs -> nn w.
  Notation e := (ufirst_write rp cs).

  Lemma ufw_le w ot : In (w, ot) cs -> ele (val e) w.
  Proof.
    intros I. unfold ufirst_write. destruct (Thl.has_finite cs) eqn:F.
    - eapply upd_le; eauto.
    - rewrite (has_finite_false_PInf cs w ot NN F I). apply ele_PInf.
  Qed.
  Lemma ufw_attained : val e <> PInf -> exists ot, In (val e, ot) cs.
  Proof.
    unfold ufirst_write. destruct (Thl.has_finite cs) eqn:F; [|simpl; congruence].
    apply upd_attained.
  Qed.
  Lemma ufw_tags_sound t : In t (tags e) -> In (val e, Some t) cs.
  Proof.
    unfold ufirst_write. destruct (Thl.has_finite cs) eqn:F; [|intros []].
    apply (upd_tags_sound utag_eqb utag_eqb_spec).
  Qed.
  Lemma ufw_nn : nn (val e).
  Proof. unfold ufirst_write. destruct (Thl.has_finite cs); [now apply upd_nn|apply nn_PInf]. Qed.
  Lemma ufw_tags_finite t : In t (tags e) -> ext_is_inf (val e) = false.
  Proof.
    unfold ufirst_write. destruct (Thl.has_finite cs) eqn:F; [|intros []]. intros _.
    destruct (has_finite_true_ex _ F) as [w [ot [Iw Ew]]].
    pose proof (upd_le utag_eqb rp cs w ot Iw) as L.
    pose proof (upd_nn utag_eqb rp cs NN) as N.
    destruct (val (update utag_eqb MIN rp (default_entry MIN) cs)); auto; [now elim N|].
    destruct w; simpl in *; discriminate.
  Qed.
  Lemma ufw_tags_nonempty t : rp <> RNONE -> val e <> PInf -> In (val e, Some t) cs -> tags e <> [].
  Proof.
    unfold ufirst_write. destruct (Thl.has_finite cs) eqn:F; [|simpl; congruence]. intros N _.
    apply (upd_tags_nonempty utag_eqb utag_eqb_spec); auto.
  Qed.
End UFirst.

Lemma ufw_tags_complete cs t : val (ufirst_write RALL cs) <> PInf ->
  In (val (ufirst_write RALL cs), Some t) cs -> In t (tags (ufirst_write RALL cs)).
Proof.
  unfold ufirst_write. destruct (Thl.has_finite cs) eqn:F; [|simpl; congruence]. intros _.
  apply (upd_tags_complete utag_eqb utag_eqb_spec).
Qed.

(** ** the five aggregators of one child *)
(* edge charges seen by the optimiser: [kind] of the parent, [ll] = lossless flag of the edge,
   [ck] = kind of the child; conserved copy and free (segment / transferred) copy *)
Definition ucc (c : costs) (kind ll ck : bool) : ext :=
  if kind then (if ck then Fin 0 else Fin (c_sloss c))
  else if ck then (if ll then PInf else Fin 0) else (if ll then Fin 0 else Fin (c_sloss c)).
Definition ufc (kind ll ck : bool) : ext :=
  if kind then Fin 0 else if ck then (if ll then PInf else Fin 0) else Fin 0.

(* which species feed aggregator [i] (0 left, 1 right, 2 conserved, 3 segment, 4 separate) *)
Definition ucond (S : stree) (s : path) (i : nat) (d : path) : bool :=
  match i with
  | 0%nat => negb (sleaf S s) && in_left s d
  | 1%nat => negb (sleaf S s) && in_right s d
  | 2%nat | 3%nat => anc s d
  | 4%nat => separate s d
  | _ => false
  end.
(* the charge of the edge to a child at [d] of kind [ck], as seen through aggregator [i] *)
Definition ucharge (c : costs) (ll : bool) (s : path) (kind : bool) (i : nat) (d : path) (ck : bool) : ext :=
  match i with
  | 0%nat | 1%nat => ext_add (Fin (dist s d * c_floss c - c_floss c)) (ucc c kind ll ck)
  | 2%nat => ext_add (Fin (dist s d * c_floss c)) (ucc c kind ll ck)
  | 3%nat => ext_add (Fin (dist s d * c_floss c)) (ufc kind ll ck)
  | _ => ufc kind ll ck
  end.

Definition uone (S : stree) (c : costs) (t : utt) (lossless : bool) (s : path) (kind : bool) (d : path)
    : list (nat * (ext * option uassign)) :=
  let sl := Fin (c_sloss c) in
  let lca_lca := if lossless then Fin 0 else sl in
  let lca_inh := if lossless then PInf else Fin 0 in
  let lc := val (uread t (d, false)) in
  let ic := val (uread t (d, true)) in
  let la := Some (d, false) in let ia := Some (d, true) in
  if anc s d then
    let above := Fin (dist s d * c_floss c) in
    let below := Fin (dist s d * c_floss c - c_floss c) in
    let cons base := if kind then [(ext_add (ext_add base lc) sl, la); (ext_add base ic, ia)]
                     else [(ext_add (ext_add base lc) lca_lca, la); (ext_add (ext_add base ic) lca_inh, ia)] in
    let seg := if kind then [(ext_add above lc, la); (ext_add above ic, ia)]
               else [(ext_add above lc, la); (ext_add (ext_add above ic) lca_inh, ia)] in
    map (pair 2%nat) (cons above) ++ map (pair 3%nat) seg
    ++ (if sleaf S s then []
        else if anc (s ++ [false]) d then map (pair 0%nat) (cons below)
        else if anc (s ++ [true]) d then map (pair 1%nat) (cons below)
        else [])
  else if negb (anc d s) then
    map (pair 4%nat) (if kind then [(lc, la); (ic, ia)] else [(lc, la); (ext_add ic lca_inh, ia)])
  else [].
Definition upick (S : stree) (c : costs) (t : utt) (lossless : bool) (s : path) (kind : bool) (i : nat)
    : list (ext * option uassign) :=
  map snd (filter (fun x => Nat.eqb (fst x) i) (flat_map (uone S c t lossless s kind) (snodes S))).
Definition uagg (S : stree) (c : costs) (rp : ret) (t : utt) (lossless : bool) (s : path) (kind : bool) (i : nat)
    : entry uassign := uaggp rp (upick S c t lossless s kind i).

Lemma uchild_choices_eq S c rp t ll s kind :
  uchild_choices S c rp t ll s kind =
  {| uc_left := uagg S c rp t ll s kind 0; uc_right := uagg S c rp t ll s kind 1;
     uc_conserved := uagg S c rp t ll s kind 2; uc_segment := uagg S c rp t ll s kind 3;
     uc_separate := uagg S c rp t ll s kind 4 |}.
Proof. reflexivity. Qed.

Lemma left_right_excl s d : anc (s ++ [false]) d = true -> anc (s ++ [true]) d = true -> False.
Proof.
  intros H1 H2. apply anc_snoc_inv in H1 as [y ->]. apply anc_snoc_inv in H2 as [z E].
  apply app_inv_head in E. discriminate.
Qed.

Section UOne.
  Variables (S : stree) (c : costs) (t : utt) (s : path).
  Definition uvalue (ll kind : bool) (i : nat) (d : path) (ck : bool) : ext :=
    ext_add (val (uread t (d, ck))) (ucharge c ll s kind i d ck).

  Lemma uvalue_eq_LR ll kind i d ck : (i = 0 \/ i = 1)%nat ->
    uvalue ll kind i d ck = ext_add (ext_add (Fin (dist s d * c_floss c - c_floss c)) (val (uread t (d, ck)))) (ucc c kind ll ck).
  Proof. intros [-> | ->]; unfold uvalue, ucharge; rewrite ext_add_assoc; f_equal; apply ext_add_comm. Qed.
  Lemma uvalue_eq_2 ll kind d ck :
    uvalue ll kind 2 d ck = ext_add (ext_add (Fin (dist s d * c_floss c)) (val (uread t (d, ck)))) (ucc c kind ll ck).
  Proof. unfold uvalue, ucharge; rewrite ext_add_assoc; f_equal; apply ext_add_comm. Qed.
  Lemma uvalue_eq_3 ll kind d ck :
    uvalue ll kind 3 d ck = ext_add (ext_add (Fin (dist s d * c_floss c)) (val (uread t (d, ck)))) (ufc kind ll ck).
  Proof. unfold uvalue, ucharge; rewrite ext_add_assoc; f_equal; apply ext_add_comm. Qed.
  Lemma uvalue_eq_4 ll kind d ck : uvalue ll kind 4 d ck = ext_add (val (uread t (d, ck))) (ufc kind ll ck).
  Proof. reflexivity. Qed.

  Ltac uone_fin :=
    eexists; split; [reflexivity|split;
      [unfold ucond, in_left, in_right, separate; repeat match goal with H : _ = _ |- _ => rewrite H end; reflexivity
      |rewrite ?uvalue_eq_2, ?uvalue_eq_3, ?uvalue_eq_4, ?(uvalue_eq_LR _ _ 0), ?(uvalue_eq_LR _ _ 1) by auto;
       unfold ucc, ufc; rewrite ?ext_add_0_r; reflexivity]].

  Lemma uone_sound ll kind d i v ot : In (i, (v, ot)) (uone S c t ll s kind d) ->
    exists ck, ot = Some (d, ck) /\ ucond S s i d = true /\ v = uvalue ll kind i d ck.
  Proof.
    unfold uone. destruct (anc s d) eqn:A.
    - destruct (sleaf S s) eqn:SL; [|destruct (anc (s ++ [false]) d) eqn:AL; [|destruct (anc (s ++ [true]) d) eqn:AR]];
        destruct kind, ll; cbn [map app In]; intros H;
        repeat (destruct H as [H|H]; [injection H as <- <- <-; uone_fin|]); destruct H.
    - destruct (anc d s) eqn:B; cbn [negb]; [intros []|].
      destruct kind, ll; cbn [map app In]; intros H;
        repeat (destruct H as [H|H]; [injection H as <- <- <-; uone_fin|]); destruct H.
  Qed.

  Lemma uone_complete ll kind d i ck : ucond S s i d = true ->
    In (i, (uvalue ll kind i d ck, Some (d, ck))) (uone S c t ll s kind d).
  Proof.
    intros C. unfold uone.
    destruct i as [|[|[|[|[|i]]]]]; cbn [ucond] in C; try discriminate.
    - apply andb_true_iff in C as [SL C]. apply negb_true_iff in SL. unfold in_left in C.
      rewrite (is_prefix_trans _ _ _ (anc_self_app s [false]) C), SL, C.
      rewrite (uvalue_eq_LR _ _ 0) by auto. unfold ucc.
      apply in_or_app; right; apply in_or_app; right.
      destruct kind, ll, ck; cbn [map In]; rewrite ?ext_add_0_r; auto.
    - apply andb_true_iff in C as [SL C]. apply negb_true_iff in SL. unfold in_right in C.
      rewrite (is_prefix_trans _ _ _ (anc_self_app s [true]) C), SL, C.
      destruct (anc (s ++ [false]) d) eqn:AL; [exfalso; eapply left_right_excl; eauto|].
      rewrite (uvalue_eq_LR _ _ 1) by auto. unfold ucc.
      apply in_or_app; right; apply in_or_app; right.
      destruct kind, ll, ck; cbn [map In]; rewrite ?ext_add_0_r; auto.
    - rewrite C. rewrite uvalue_eq_2. unfold ucc. apply in_or_app; left.
      destruct kind, ll, ck; cbn [map In]; rewrite ?ext_add_0_r; auto.
    - rewrite C. rewrite uvalue_eq_3. unfold ufc. apply in_or_app; right; apply in_or_app; left.
      destruct kind, ll, ck; cbn [map In]; rewrite ?ext_add_0_r; auto.
    - unfold separate in C. apply andb_true_iff in C as [C1 C2]. apply negb_true_iff in C1, C2. rewrite C1, C2.
      rewrite uvalue_eq_4. unfold ufc. cbn [negb].
      destruct kind, ll, ck; cbn [map In]; rewrite ?ext_add_0_r; auto.
  Qed.

  Lemma upick_spec ll kind i v ot : In (v, ot) (upick S c t ll s kind i) <->
    exists d ck, In d (snodes S) /\ ot = Some (d, ck) /\ ucond S s i d = true /\ v = uvalue ll kind i d ck.
  Proof.
    unfold upick. rewrite in_map_iff. split.
    - intros [[j [v' ot']] [E H]]. simpl in E. inversion E; subst. clear E.
      apply filter_In in H as [H J]. simpl in J. apply Nat.eqb_eq in J. subst j.
      apply in_flat_map in H as [d [Id H]]. apply uone_sound in H as [ck [-> [C ->]]]. exists d, ck. auto.
    - intros [d [ck [Id [-> [C ->]]]]]. exists (i, (uvalue ll kind i d ck, Some (d, ck))). split; auto.
      apply filter_In. split; [|simpl; apply Nat.eqb_refl].
      apply in_flat_map. exists d. split; auto. now apply uone_complete.
  Qed.
End UOne.

Section UAgg.
  Variables (S : stree) (c : costs) (rp : ret) (t : utt) (ll : bool) (s : path) (kind : bool) (i : nat).
  Notation A := (uagg S c rp t ll s kind i).
  Notation V := (uvalue c t s ll kind i).

  Lemma uagg_le d ck : In d (snodes S) -> ucond S s i d = true -> ele (val A) (V d ck).
  Proof.
    intros Id C. unfold uagg, uaggp. eapply upd_le. apply upick_spec. exists d, ck. eauto.
  Qed.
  Lemma uagg_tags_sound d ck : In (d, ck) (tags A) -> In d (snodes S) /\ ucond S s i d = true /\ V d ck = val A.
  Proof.
    intros H. apply (upd_tags_sound uassign_eqb uassign_eqb_spec) in H.
    apply upick_spec in H as [d' [ck' [Id [E [C Ev]]]]]. inversion E; subst. auto.
  Qed.
  Lemma uagg_tags_complete d ck : rp = RALL -> In d (snodes S) -> ucond S s i d = true -> V d ck = val A -> In (d, ck) (tags A).
  Proof.
    intros Hr Id C E. unfold uagg, uaggp in *. revert E. rewrite Hr. intros E.
    apply (upd_tags_complete uassign_eqb uassign_eqb_spec).
    apply upick_spec. exists d, ck. auto.
  Qed.
  Lemma uagg_tags_nonempty d : rp <> RNONE -> In d (snodes S) -> ucond S s i d = true -> tags A <> [].
  Proof.
    intros N Id C. apply (ucs_tags_nonempty uassign_eqb uassign_eqb_spec); auto.
    - intros X. assert (In (V d false, Some (d, false)) (upick S c t ll s kind i)) as I.
      { apply upick_spec. exists d, false. auto. }
      rewrite X in I. destruct I.
    - intros v ot I. apply upick_spec in I as [d' [ck [_ [-> _]]]]. eauto.
  Qed.
  Lemma ucharge_nn d ck : nn (ucharge c ll s kind i d ck).
  Proof.
    unfold ucharge, ucc, ufc.
    destruct i as [|[|[|[|]]]]; destruct kind, ll, ck; try apply nn_add; try apply nn_Fin; try apply nn_PInf.
  Qed.
  Lemma uagg_nn : (forall k, nn (val (uread t k))) -> nn (val A).
  Proof.
    intros NR. apply upd_nn. intros w ot I. apply upick_spec in I as [d [ck [_ [_ [_ ->]]]]].
    unfold uvalue. apply nn_add; [apply NR|apply ucharge_nn].
  Qed.
End UAgg.

(** * part 3: one cell of the table and the optimiser's one-node charge *)

(* the six candidate families: event cost, aggregator of the left child, aggregator of the right child *)
Definition ufams (c : costs) : list (ext * nat * nat) :=
  [(Fin (c_spe c), 0%nat, 1%nat); (Fin (c_spe c), 1%nat, 0%nat);
   (Fin (c_dup c), 2%nat, 3%nat); (Fin (c_dup c), 3%nat, 2%nat);
   (c_hgt c, 2%nat, 4%nat); (c_hgt c, 4%nat, 2%nat)].

Definition ucell_cands (S : stree) (c : costs) (rp : ret) (ta tb : utt) (la lb : bool) (s : path) (kind : bool)
    : list (ext * option utag) :=
  flat_map (fun f : ext * nat * nat =>
    ucomb2 rp (fst (fst f)) (uagg S c rp ta la s kind (snd (fst f))) (uagg S c rp tb lb s kind (snd f))) (ufams c).

Lemma ucell_eq S c rp ta tb la lb s kind :
  ucell S c rp ta tb la lb s kind = ufirst_write rp (ucell_cands S c rp ta tb la lb s kind).
Proof.
  unfold ucell, ucell_cands, ufams. rewrite !uchild_choices_eq. cbn [flat_map fst snd uc_left uc_right uc_conserved uc_segment uc_separate].
  rewrite app_nil_r. reflexivity.
Qed.

(* the optimiser's charge of one node: parent at [s] of kind [kind], children at [l] and [r] of
   kinds [kl], [kr]; [la], [lb]: lossless flags of the two edges *)
Definition uocost (S : stree) (c : costs) (s : path) (kind la lb : bool) (l : uassign) (r : uassign) : ext :=
  minl (fun f : ext * nat * nat =>
          guard (ucond S s (snd (fst f)) (fst l) && ucond S s (snd f) (fst r))
                (ext_add (ext_add (fst (fst f)) (ucharge c la s kind (snd (fst f)) (fst l) (snd l)))
                         (ucharge c lb s kind (snd f) (fst r) (snd r))))
       (ufams c).

Definition ukeys (S : stree) : list uassign := flat_map (fun d => [(d, false); (d, true)]) (snodes S).
Lemma In_ukeys S k : In k (ukeys S) <-> In (fst k) (snodes S).
Proof.
  unfold ukeys. rewrite in_flat_map. destruct k as [d ck]. simpl. split.
  - intros [x [I [H|[H|[]]]]]; inversion H; subst; auto.
  - intros I. exists d. split; auto. destruct ck; auto.
Qed.

Definition unode_val (S : stree) (c : costs) (la lb : bool) (A B : uassign -> ext) (s : path) (kind : bool) : ext :=
  minl (fun l => minl (fun r => ext_add (uocost S c s kind la lb l r) (ext_add (A l) (B r))) (ukeys S)) (ukeys S).

Lemma minl_glb {X} (f : X -> ext) l v : (forall x, In x l -> ele v (f x)) -> ele v (minl f l).
Proof.
  intros H. induction l as [|y l IH]; simpl; [apply ele_PInf|].
  apply ele_min_glb; [apply H; now left|apply IH; intros x Hx; apply H; now right].
Qed.
Lemma minl_add {X} (f : X -> ext) l x : ext_add (minl f l) x = minl (fun y => ext_add (f y) x) l.
Proof. induction l as [|y l IH]; simpl; [reflexivity|]. now rewrite ext_add_min_l, IH. Qed.

(* a sum of two aggregated values, regrouped as charge + children *)
Lemma usum_regroup k ra ca rb cb :
  ext_add (ext_add k (ext_add ra ca)) (ext_add rb cb) = ext_add (ext_add (ext_add k ca) cb) (ext_add ra rb).
Proof. destruct k, ra, ca, rb, cb; simpl; auto; f_equal; lia. Qed.

Section UCell.
  Variables (S : stree) (c : costs) (rp : ret) (ta tb : utt) (la lb : bool) (s : path) (kind : bool).
  Notation A := (fun k : uassign => val (uread ta k)).
  Notation B := (fun k : uassign => val (uread tb k)).
  Hypothesis Hh : nn (c_hgt c).
  Hypothesis NA : forall k, nn (val (uread ta k)).
  Hypothesis NB : forall k, nn (val (uread tb k)).

  Notation cellv := (val (ucell S c rp ta tb la lb s kind)).
  Notation cands := (ucell_cands S c rp ta tb la lb s kind).
  Notation Va := (uvalue c ta s la kind).
  Notation Vb := (uvalue c tb s lb kind).
  Notation Aa := (uagg S c rp ta la s kind).
  Notation Ab := (uagg S c rp tb lb s kind).

  (* the value of family (k, i, j) for children l, r *)
  Definition ufval (k : ext) (i j : nat) (l r : uassign) : ext :=
    ext_add (ext_add k (Va i (fst l) (snd l))) (Vb j (fst r) (snd r)).

  Lemma ufval_eq k i j l r :
    ufval k i j l r =
    ext_add (ext_add (ext_add k (ucharge c la s kind i (fst l) (snd l))) (ucharge c lb s kind j (fst r) (snd r)))
            (ext_add (val (uread ta l)) (val (uread tb r))).
  Proof. destruct l as [l kl], r as [r kr]. unfold ufval, uvalue. cbn [fst snd]. apply usum_regroup. Qed.

  Lemma in_ucands w ot : In (w, ot) cands <->
    exists k i j, In (k, i, j) (ufams c) /\ In (w, ot) (ucomb2 rp k (Aa i) (Ab j)).
  Proof.
    unfold ucell_cands. rewrite in_flat_map. split.
    - intros [[[k i] j] [I H]]. exists k, i, j. auto.
    - intros [k [i [j [I H]]]]. exists (k, i, j). auto.
  Qed.

  Lemma ufams_nn k i j : In (k, i, j) (ufams c) -> nn k.
  Proof.
    unfold ufams. cbn [In]. intros H.
    repeat (destruct H as [H|H]; [injection H as <- <- <-; (apply nn_Fin || exact Hh)|]). destruct H.
  Qed.

  Lemma onecomb_sound k i j w l r : In (w, Some (l, r)) (ucomb2 rp k (Aa i) (Ab j)) ->
    In (fst l) (snodes S) /\ In (fst r) (snodes S) /\ ucond S s i (fst l) = true /\ ucond S s j (fst r) = true /\
    w = ufval k i j l r.
  Proof.
    intros H. apply ucomb_sound in H as [Hl [Hr E]]. destruct l as [l kl], r as [r kr].
    apply uagg_tags_sound in Hl as [Il [Cl El]]. apply uagg_tags_sound in Hr as [Ir [Cr Er]].
    cbn [fst snd]. repeat split; auto. unfold ufval. cbn [fst snd]. rewrite E, El, Er. reflexivity.
  Qed.

  Lemma onecomb_lower k i j l r : rp <> RNONE ->
    In (fst l) (snodes S) -> In (fst r) (snodes S) -> ucond S s i (fst l) = true -> ucond S s j (fst r) = true ->
    exists t, In (ext_add (ext_add k (val (Aa i))) (val (Ab j)), Some t) (ucomb2 rp k (Aa i) (Ab j)) /\
              ele (ext_add (ext_add k (val (Aa i))) (val (Ab j))) (ufval k i j l r).
  Proof.
    intros N Il Ir Cl Cr.
    destruct (ucomb_nonempty rp k (Aa i) (Ab j) N) as [t It].
    - apply (uagg_tags_nonempty S c rp ta la s kind i (fst l)); auto.
    - apply (uagg_tags_nonempty S c rp tb lb s kind j (fst r)); auto.
    - exists t. split; auto. unfold ufval.
      apply ext_add_mono; [apply ext_add_mono; [apply ele_refl|]|]; apply uagg_le; auto.
  Qed.

  Lemma ucands_some w ot : In (w, ot) cands -> exists t, ot = Some t.
  Proof. intros H. apply in_ucands in H as [k [i [j [_ H]]]]. eapply ucomb_some; eauto. Qed.

  Lemma ucands_sound w l r : In (w, Some (l, r)) cands ->
    In (fst l) (snodes S) /\ In (fst r) (snodes S) /\
    exists k i j, In (k, i, j) (ufams c) /\ ucond S s i (fst l) = true /\ ucond S s j (fst r) = true /\ w = ufval k i j l r.
  Proof.
    intros H. apply in_ucands in H as [k [i [j [I H]]]].
    apply onecomb_sound in H as [Il [Ir [Cl [Cr E]]]]. split; auto. split; auto. exists k, i, j. auto.
  Qed.

  Lemma ufval_nn k i j l r : nn k -> nn (ufval k i j l r).
  Proof.
    intros Nk. unfold ufval, uvalue.
    apply nn_add; [apply nn_add; [exact Nk|]|]; (apply nn_add; [auto|apply ucharge_nn]).
  Qed.

  Lemma ucands_nn w ot : In (w, ot) cands -> nn w.
  Proof.
    intros H. destruct (ucands_some _ _ H) as [[l r] ->].
    apply in_ucands in H as [k [i [j [I H]]]]. pose proof (ufams_nn _ _ _ I) as Nk.
    apply onecomb_sound in H as [_ [_ [_ [_ ->]]]]. now apply ufval_nn.
  Qed.

  Lemma ucell_nn : nn cellv.
  Proof. rewrite ucell_eq. apply ufw_nn. exact ucands_nn. Qed.

  Lemma ucell_le_cand w ot : In (w, ot) cands -> ele cellv w.
  Proof. rewrite ucell_eq. apply ufw_le. exact ucands_nn. Qed.

  (** soundness of a tag *)
  Lemma ucell_tag_sound l r : In (l, r) (tags (ucell S c rp ta tb la lb s kind)) ->
    In (fst l) (snodes S) /\ In (fst r) (snodes S) /\ ext_is_inf cellv = false /\
    exists k i j, In (k, i, j) (ufams c) /\ ucond S s i (fst l) = true /\ ucond S s j (fst r) = true /\
                  cellv = ufval k i j l r.
  Proof.
    rewrite ucell_eq. intros H.
    pose proof (ufw_tags_finite rp _ ucands_nn _ H) as F.
    apply ufw_tags_sound in H. apply ucands_sound in H as [Il [Ir X]]. auto.
  Qed.

  (* each applicable family dominates the optimiser's charge *)
  Lemma uocost_le_fam k i j l r : In (k, i, j) (ufams c) -> ucond S s i (fst l) = true -> ucond S s j (fst r) = true ->
    ele (ext_add (uocost S c s kind la lb l r) (ext_add (val (uread ta l)) (val (uread tb r)))) (ufval k i j l r).
  Proof.
    intros I Cl Cr. rewrite ufval_eq. apply ext_add_mono; [|apply ele_refl]. unfold uocost.
    eapply ele_trans; [apply (minl_le _ (ufams c) (k, i, j) I)|]. cbn [fst snd]. rewrite Cl, Cr. apply ele_refl.
  Qed.

  Section Lower.
    Hypothesis Hrp : rp <> RNONE.

    Lemma ucell_le_fam k i j l r : In (k, i, j) (ufams c) ->
      In (fst l) (snodes S) -> In (fst r) (snodes S) -> ucond S s i (fst l) = true -> ucond S s j (fst r) = true ->
      ele cellv (ufval k i j l r).
    Proof.
      intros I Il Ir Cl Cr. destruct (onecomb_lower k i j l r Hrp Il Ir Cl Cr) as [t [It Le]].
      eapply ele_trans; [|exact Le]. apply (ucell_le_cand _ (Some t)). apply in_ucands. exists k, i, j. auto.
    Qed.

    (** the cell is below the optimiser's charge of every placement of the children *)
    Theorem ucell_lower l r : In (fst l) (snodes S) -> In (fst r) (snodes S) ->
      ele cellv (ext_add (uocost S c s kind la lb l r) (ext_add (val (uread ta l)) (val (uread tb r)))).
    Proof.
      intros Il Ir. unfold uocost. rewrite minl_add. apply minl_glb. intros [[k i] j] I. cbn [fst snd].
      rewrite guard_add.
      destruct (ucond S s i (fst l) && ucond S s j (fst r)) eqn:E; [|apply ele_PInf]. cbn [guard].
      apply andb_true_iff in E as [Cl Cr]. rewrite <- ufval_eq. now apply ucell_le_fam.
    Qed.

    (** for a tag, the cell value is exactly the optimiser's charge plus the children's values *)
    Theorem ucell_tag_value l r : In (l, r) (tags (ucell S c rp ta tb la lb s kind)) ->
      In (fst l) (snodes S) /\ In (fst r) (snodes S) /\ ext_is_inf cellv = false /\
      cellv = ext_add (uocost S c s kind la lb l r) (ext_add (val (uread ta l)) (val (uread tb r))).
    Proof.
      intros H. destruct (ucell_tag_sound l r H) as [Il [Ir [F [k [i [j [I [Cl [Cr V]]]]]]]]].
      repeat split; auto. apply ele_antisym; [now apply ucell_lower|].
      rewrite V. now apply uocost_le_fam.
    Qed.

    (** the value of the cell: the clean recurrence *)
    Theorem ucell_value : cellv = unode_val S c la lb A B s kind.
    Proof.
      apply ele_antisym.
      - unfold unode_val. apply minl_glb. intros l Il. apply minl_glb. intros r Ir.
        apply In_ukeys in Il, Ir. now apply ucell_lower.
      - destruct (ext_eqb cellv PInf) eqn:E; [apply ext_eqb_eq in E; rewrite E; apply ele_PInf|].
        assert (cellv <> PInf) as NE by (intros X; rewrite X in E; discriminate).
        rewrite ucell_eq in NE. destruct (ufw_attained rp _ NE) as [ot I]. rewrite <- ucell_eq in I.
        destruct (ucands_some _ _ I) as [[l r] ->].
        apply ucands_sound in I as [Il [Ir [k [i [j [If [Cl [Cr V]]]]]]]].
        eapply ele_trans; [|rewrite V; apply (uocost_le_fam k i j l r If Cl Cr)].
        unfold unode_val. apply In_ukeys in Il, Ir.
        eapply ele_trans; [apply (minl_le _ (ukeys S) l Il)|]. cbv beta.
        apply (minl_le (fun r0 => ext_add (uocost S c s kind la lb l r0) (ext_add (val (uread ta l)) (val (uread tb r0)))) (ukeys S) r Ir).
    Qed.

    (* a finite cell has a tag *)
    Lemma ucell_finite_tag : cellv <> PInf -> exists l r, In (l, r) (tags (ucell S c rp ta tb la lb s kind)).
    Proof.
      intros NE. rewrite ucell_eq in *. destruct (ufw_attained rp _ NE) as [ot I].
      destruct (ucands_some _ _ I) as [t ->].
      pose proof (ufw_tags_nonempty rp _ t Hrp NE I) as NT.
      destruct (tags _) as [|[l r] tl] eqn:E; [congruence|]. exists l, r. now left.
    Qed.
  End Lower.
End UCell.

(** completeness of the tags under ALL *)
Section UCellAll.
  Variables (S : stree) (c : costs) (ta tb : utt) (la lb : bool) (s : path) (kind : bool).
  Hypothesis Hh : nn (c_hgt c).
  Hypothesis NA : forall k, nn (val (uread ta k)).
  Hypothesis NB : forall k, nn (val (uread tb k)).

  Notation cellv := (val (ucell S c RALL ta tb la lb s kind)).
  Notation cands := (ucell_cands S c RALL ta tb la lb s kind).
  Notation Aa := (uagg S c RALL ta la s kind).
  Notation Ab := (uagg S c RALL tb lb s kind).

  Lemma uonecomb_tight k i j l r v : nn k ->
    In (fst l) (snodes S) -> In (fst r) (snodes S) -> ucond S s i (fst l) = true -> ucond S s j (fst r) = true ->
    ele v (ext_add (ext_add k (val (Aa i))) (val (Ab j))) ->
    v = ufval c ta tb la lb s kind k i j l r -> v <> PInf ->
    In (v, Some (l, r)) (ucomb2 RALL k (Aa i) (Ab j)).
  Proof.
    intros Nk Il Ir Cl Cr Le E NE. destruct l as [l kl], r as [r kr]. cbn [fst snd] in *.
    pose proof (uagg_le S c RALL ta la s kind i l kl Il Cl) as La.
    pose proof (uagg_le S c RALL tb lb s kind j r kr Ir Cr) as Lb.
    unfold ufval in E. cbn [fst snd] in E.
    assert (ext_add (ext_add k (val (Aa i))) (val (Ab j)) =
            ext_add (ext_add k (uvalue c ta s la kind i l kl)) (uvalue c tb s lb kind j r kr)) as Eq.
    { apply ele_antisym; [apply ext_add_mono; [apply ext_add_mono; [apply ele_refl|]|]; assumption|].
      rewrite <- E. exact Le. }
    destruct (ext_sum_tight k (val (Aa i)) (val (Ab j)) _ _ Nk
                (uagg_nn S c RALL ta la s kind i NA) (uagg_nn S c RALL tb lb s kind j NB) La Lb Eq) as [Ea Eb].
    { rewrite <- E. exact NE. }
    rewrite E, <- Eq. apply ucomb_complete; apply uagg_tags_complete; auto.
  Qed.

  Theorem ucell_tag_complete l r : In (fst l) (snodes S) -> In (fst r) (snodes S) -> cellv <> PInf ->
    cellv = ext_add (uocost S c s kind la lb l r) (ext_add (val (uread ta l)) (val (uread tb r))) ->
    In (l, r) (tags (ucell S c RALL ta tb la lb s kind)).
  Proof.
    intros Il Ir NE E. rewrite ucell_eq. apply ufw_tags_complete; [now rewrite <- ucell_eq|]. rewrite <- ucell_eq.
    (* the minimum defining [uocost] is attained by one applicable family *)
    assert (uocost S c s kind la lb l r <> PInf) as NO.
    { intros X. rewrite X in E. apply NE. rewrite E. reflexivity. }
    unfold uocost in NO. destruct (minl_attained _ _ NO) as [[[k i] j] [If Ef]]. cbn [fst snd] in Ef.
    fold (uocost S c s kind la lb l r) in Ef.
    destruct (ucond S s i (fst l) && ucond S s j (fst r)) eqn:Cd.
    2:{ cbn [guard] in Ef. exfalso. apply NE. rewrite E, <- Ef. reflexivity. }
    cbn [guard] in Ef. apply andb_true_iff in Cd as [Cl Cr].
    rewrite <- Ef, <- (ufval_eq c ta tb la lb s kind k i j l r) in E.
    apply in_ucands. exists k, i, j. split; auto.
    apply uonecomb_tight; auto.
    - eapply ufams_nn; eauto.
    - destruct (onecomb_lower S c RALL ta tb la lb s kind k i j l r RALL_not_none Il Ir Cl Cr) as [t [It _]].
      apply (ucell_le_cand S c RALL ta tb la lb s kind Hh NA NB _ (Some t)).
      apply in_ucands. exists k, i, j. auto.
  Qed.
End UCellAll.

(** * part 4: the table, the decoding, validity of the solutions *)

Lemma existsb_path_In s l : existsb (path_eqb s) l = true <-> In s l.
Proof.
  rewrite existsb_exists. split.
  - intros [x [I E]]. destruct (path_eqb_spec s x); [subst; auto|discriminate].
  - intros I. exists s. split; auto. apply path_eqb_refl.
Qed.

Lemma uassign_eqb_refl k : uassign_eqb k k = true.
Proof. destruct (uassign_eqb_spec k k); congruence. Qed.

Lemma urow_lookup_app r1 r2 k :
  urow_lookup (r1 ++ r2) k = match urow_lookup r1 k with Some e => Some e | None => urow_lookup r2 k end.
Proof.
  induction r1 as [|[k' e] r1 IH]; simpl; auto. destruct (uassign_eqb k k'); auto.
Qed.

Lemma urow_lookup_row (P : uassign -> bool) (e : uassign -> entry utag) species k :
  urow_lookup (flat_map (fun s => flat_map (fun kind => if P (s, kind) then [] else [((s, kind), e (s, kind))])
                                           [false; true]) species) k
  = if existsb (path_eqb (fst k)) species && negb (P k) then Some (e k) else None.
Proof.
  induction species as [|y sp IH]; [reflexivity|].
  cbn [flat_map existsb] in IH |- *. rewrite app_nil_r, !urow_lookup_app, IH. clear IH.
  destruct k as [s kind]. cbn [fst].
  assert (forall kd, urow_lookup (if P (y, kd) then [] else [((y, kd), e (y, kd))]) (s, kind) =
                     if path_eqb s y && Bool.eqb kind kd && negb (P (y, kd)) then Some (e (y, kd)) else None) as One.
  { intros kd. destruct (P (y, kd)); cbn [urow_lookup negb]; rewrite ?andb_false_r; auto.
    unfold uassign_eqb. cbn [fst snd]. rewrite andb_true_r. destruct (path_eqb s y && Bool.eqb kind kd); reflexivity. }
  rewrite !One. destruct (path_eqb_spec s y) as [->|NE]; cbn [andb orb].
  - destruct kind; cbn [Bool.eqb andb]; destruct (P (y, true)), (P (y, false)); cbn [negb andb];
      try reflexivity; destruct (existsb (path_eqb y) sp); reflexivity.
  - reflexivity.
Qed.

Section UTableNode.
  Variables (S : stree) (c : costs) (rp : ret) (ta tb : utt) (la lb : bool) (species : list path).
  Hypothesis Hh : nn (c_hgt c).
  Hypothesis NA : forall k, nn (val (uread ta k)).
  Hypothesis NB : forall k, nn (val (uread tb k)).
  Notation cellk := (fun k : uassign => ucell S c rp ta tb la lb (fst k) (snd k)).
  Notation T := (UTNode (flat_map (fun s => flat_map (fun kind =>
                  let e := ucell S c rp ta tb la lb s kind in
                  if ext_is_inf (val e) then [] else [((s, kind), e)]) [false; true]) species) ta tb).

  Lemma uread_node k : uread T k =
    if existsb (path_eqb (fst k)) species && negb (ext_is_inf (val (cellk k))) then cellk k else default_entry MIN.
  Proof.
    cbn [uread]. cbv zeta.
    pose proof (urow_lookup_row (fun k => ext_is_inf (val (cellk k))) cellk species k) as X.
    cbv beta in X. cbn [fst snd] in X. rewrite X. clear X.
    destruct (existsb (path_eqb (fst k)) species && negb (ext_is_inf (val (cellk k)))); reflexivity.
  Qed.

  Lemma uread_node_val k : In (fst k) species -> val (uread T k) = val (cellk k).
  Proof.
    intros I. rewrite uread_node. apply existsb_path_In in I. rewrite I. cbn [andb].
    destruct (ext_is_inf (val (cellk k))) eqn:F; cbn [negb]; auto.
    symmetry. apply nn_inf_PInf; auto. apply ucell_nn; auto.
  Qed.
  Lemma uread_node_out k : ~ In (fst k) species -> uread T k = default_entry MIN.
  Proof.
    intros I. rewrite uread_node. destruct (existsb (path_eqb (fst k)) species) eqn:E; auto.
    apply existsb_path_In in E. contradiction.
  Qed.
  Lemma uread_node_nn k : nn (val (uread T k)).
  Proof.
    rewrite uread_node. destruct (_ && _); [apply ucell_nn; auto|apply nn_PInf].
  Qed.
  Lemma uread_node_tags k t : In t (tags (uread T k)) <-> In (fst k) species /\ In t (tags (cellk k)).
  Proof.
    rewrite uread_node. split.
    - destruct (existsb (path_eqb (fst k)) species) eqn:E; cbn [andb]; [|intros []].
      apply existsb_path_In in E. destruct (ext_is_inf (val (cellk k))); cbn [negb]; [intros []|auto].
    - intros [I H]. apply existsb_path_In in I. rewrite I. cbn [andb].
      assert (ext_is_inf (val (cellk k)) = false) as F.
      { cbv beta. rewrite ucell_eq in *. eapply ufw_tags_finite; eauto. apply ucands_nn; auto. }
      rewrite F. exact H.
  Qed.
End UTableNode.

Lemma uread_leaf_nn sp k : nn (val (uread (UTLeaf sp) k)).
Proof. simpl. destruct (uassign_eqb k (sp, false)); simpl; discriminate. Qed.

(** the table of a (part of a) tree annotated against carrier counts [total] *)
Definition uallowed (S : stree) (extended : bool) (o : otree) : list path :=
  if extended then snodes S else [root (lca_rec o)].
Definition uflag (total : fam -> nat) (o a : otree) : bool :=
  subset (u_lca (annotate total o)) (u_lca (annotate total a)).

Section UTable.
  Variables (S : stree) (c : costs) (rp : ret) (extended : bool) (total : fam -> nat).
  Hypothesis Hh : nn (c_hgt c).

  Definition utab (o : otree) : utt := uspfs_table S c rp extended o (annotate total o).

  Lemma utab_leaf sp syn : utab (OLeaf sp syn) = UTLeaf sp.
  Proof. reflexivity. Qed.
  Lemma utab_node a b : utab (ONode a b) =
    UTNode (flat_map (fun s => flat_map (fun kind =>
              let e := ucell S c rp (utab a) (utab b) (uflag total (ONode a b) a) (uflag total (ONode a b) b) s kind in
              if ext_is_inf (val e) then [] else [((s, kind), e)]) [false; true]) (uallowed S extended (ONode a b)))
           (utab a) (utab b).
  Proof. reflexivity. Qed.

  Lemma utab_nn o : forall k, nn (val (uread (utab o) k)).
  Proof.
    induction o as [sp syn|a IHa b IHb]; intros k.
    - apply uread_leaf_nn.
    - rewrite utab_node. apply uread_node_nn; auto.
  Qed.

  (* the clean table *)
  Fixpoint UTval (o : otree) (k : uassign) : ext :=
    match o with
    | OLeaf sp _ => if uassign_eqb k (sp, false) then Fin 0 else PInf
    | ONode a b =>
        if existsb (path_eqb (fst k)) (uallowed S extended o)
        then unode_val S c (uflag total o a) (uflag total o b) (UTval a) (UTval b) (fst k) (snd k)
        else PInf
    end.

  (** the table holds the clean recurrence *)
  Theorem utable_value o : rp <> RNONE -> forall k, val (uread (utab o) k) = UTval o k.
  Proof.
    intros Hrp. induction o as [sp syn|a IHa b IHb]; intros k.
    - simpl. destruct (uassign_eqb k (sp, false)); reflexivity.
    - cbn [UTval]. rewrite utab_node.
      destruct (existsb (path_eqb (fst k)) (uallowed S extended (ONode a b))) eqn:E.
      + apply existsb_path_In in E. rewrite uread_node_val by (auto using utab_nn).
        cbv beta. rewrite ucell_value by (auto using utab_nn). unfold unode_val.
        apply minl_ext. intros l Il. apply minl_ext. intros r Ir. now rewrite IHa, IHb.
      + rewrite uread_node_out; [reflexivity|]. intros I. apply existsb_path_In in I. congruence.
  Qed.
End UTable.

(** ** validity of a labelled tree *)
(* [P]: content of the parent.  A family of a node is in its parent or gained at the node;
   leaves hold exactly their (sorted) input syntenies *)
Fixpoint uvalid_under (S : stree) (total : fam -> nat) (P : list fam) (o : otree) (t : ltree) : Prop :=
  match o, t with
  | OLeaf sp syn, LLeaf s y =>
      s = sp /\ valid_sp S sp = true /\ y = set_of syn /\
      (forall f, In f y -> In f P \/ gained_here total o f = true)
  | ONode a b, LNode s y ta tb =>
      valid_sp S s = true /\ event s (lroot ta) (lroot tb) <> Inv /\ ssorted y /\
      (forall f, In f y -> In f P \/ gained_here total o f = true) /\
      uvalid_under S total y a ta /\ uvalid_under S total y b tb
  | _, _ => False
  end.
Definition uvalid (S : stree) (O : otree) (t : ltree) : Prop := uvalid_under S (ototal O) [] O t.

Lemma uvalid_valid_rec S total : forall o P t, uvalid_under S total P o t -> valid_rec S o (forget t).
Proof.
  induction o as [sp syn|a IHa b IHb]; intros P [s y|s y ta tb] V; simpl in V; try contradiction.
  - destruct V as [-> [Hs _]]. simpl. now constructor.
  - destruct V as [Hs [Ev [_ [_ [Va Vb]]]]]. simpl. constructor; eauto.
    assert (forall t, root (forget t) = lroot t) as R by (intros [|]; reflexivity). now rewrite !R.
Qed.
Lemma forget_root t : root (forget t) = lroot t.
Proof. destruct t; reflexivity. Qed.

Lemma uvalid_events S total : forall o P t, uvalid_under S total P o t -> events_valid t.
Proof.
  induction o as [sp syn|a IHa b IHb]; intros P [s y|s y ta tb] V; simpl in V; try contradiction; simpl; auto.
  destruct V as [_ [Ev [_ [_ [Va Vb]]]]]. eauto.
Qed.

(* the cost of a labelled tree as a single extended integer *)
Definition ucost (c : costs) (O : otree) (t : ltree) : ext :=
  ext_add (cost c O (forget t)) (Fin (c_sloss c * ulab_spec t)).

Lemma total_cost_events c O t : events_valid t -> total_cost c O false t = Some (ucost c O t).
Proof.
  intros V. unfold total_cost, labeling_cost. rewrite (unordered_labeling_recount c t V). reflexivity.
Qed.

(* which placements a candidate family allows: never an invalid event *)
Lemma ufams_event S c s k i j l r : In (k, i, j) (ufams c) ->
  ucond S s i l = true -> ucond S s j r = true -> event s l r <> Inv.
Proof.
  unfold ufams. cbn [In]. intros H Cl Cr. apply applicable_valid.
  repeat (destruct H as [H|H]; [injection H as <- <- <-; cbn [ucond] in Cl, Cr|]); try contradiction.
  - apply andb_true_iff in Cl as [_ Cl]. apply andb_true_iff in Cr as [_ Cr]. left. unfold spe_cfg. now rewrite Cl, Cr.
  - apply andb_true_iff in Cl as [_ Cl]. apply andb_true_iff in Cr as [_ Cr]. left. unfold spe_cfg. rewrite Cl, Cr.
    now rewrite orb_true_r.
  - auto.
  - auto.
  - auto.
  - auto.
Qed.

(* the parent's content covers what the node needs and does not gain *)
Definition ucovers (total : fam -> nat) (P : list fam) (o : otree) : Prop :=
  forall f, needed_here total o f = true -> gained_here total o f = false -> In f P.

Lemma needed_child_l total a b f : bounded total (ONode a b) ->
  needed_here total a f = true -> gained_here total a f = false -> needed_here total (ONode a b) f = true.
Proof.
  intros B N G. rewrite gained_here_eq, N, andb_true_r in G. apply Nat.eqb_neq in G.
  pose proof (B f) as Bf. cbn [carriers] in Bf.
  unfold needed_here in *. apply andb_true_iff in N as [N _]. apply Nat.ltb_lt in N.
  cbn [carriers top]. apply andb_true_iff. split; [apply Nat.ltb_lt; lia|].
  apply andb_true_iff. split; apply Nat.ltb_lt; lia.
Qed.
Lemma needed_child_r total a b f : bounded total (ONode a b) ->
  needed_here total b f = true -> gained_here total b f = false -> needed_here total (ONode a b) f = true.
Proof.
  intros B N G. rewrite gained_here_eq, N, andb_true_r in G. apply Nat.eqb_neq in G.
  pose proof (B f) as Bf. cbn [carriers] in Bf.
  unfold needed_here in *. apply andb_true_iff in N as [N _]. apply Nat.ltb_lt in N.
  cbn [carriers top]. apply andb_true_iff. split; [apply Nat.ltb_lt; lia|].
  apply andb_true_iff. split; apply Nat.ltb_lt; lia.
Qed.

Lemma gained_needed total o f : gained_here total o f = true -> needed_here total o f = true.
Proof. rewrite gained_here_eq. intros H. now apply andb_true_iff in H as [_ H]. Qed.

(* the content given to a node by the decoding *)
Definition ucontent (total : fam -> nat) (P : list fam) (o : otree) (kind : bool) : list fam :=
  if kind then set_union P (u_gain (annotate total o)) else u_lca (annotate total o).

Lemma ucontent_sorted total P o kind : ssorted (ucontent total P o kind).
Proof.
  unfold ucontent. destruct kind; [apply ssorted_set_union, ssorted_u_gain|apply ssorted_u_lca].
Qed.

Lemma ucontent_from total P o kind : bounded total o -> ucovers total P o ->
  forall f, In f (ucontent total P o kind) -> In f P \/ gained_here total o f = true.
Proof.
  intros B Cv f. unfold ucontent. destruct kind.
  - rewrite In_set_union, In_u_gain. tauto.
  - rewrite (In_u_lca total o B). intros N. destruct (gained_here total o f) eqn:G; auto.
  Qed.

Lemma ucontent_has_lca total P o kind : bounded total o -> ucovers total P o ->
  forall f, needed_here total o f = true -> In f (ucontent total P o kind).
Proof.
  intros B Cv f N. unfold ucontent. destruct kind.
  - rewrite In_set_union, In_u_gain. destruct (gained_here total o f) eqn:G; auto.
  - now rewrite (In_u_lca total o B).
Qed.

Lemma ucontent_covers_l total P a b kind : bounded total (ONode a b) -> ucovers total P (ONode a b) ->
  ucovers total (ucontent total P (ONode a b) kind) a.
Proof.
  intros B Cv f N G. apply ucontent_has_lca; auto. eapply needed_child_l; eauto.
Qed.
Lemma ucontent_covers_r total P a b kind : bounded total (ONode a b) -> ucovers total P (ONode a b) ->
  ucovers total (ucontent total P (ONode a b) kind) b.
Proof.
  intros B Cv f N G. apply ucontent_has_lca; auto. eapply needed_child_r; eauto.
Qed.

Lemma lca_root_allowed S extended o : leaves_ok S o -> forall s, In s (uallowed S extended o) -> valid_sp S s = true.
Proof.
  intros L s. unfold uallowed. destruct extended.
  - apply snodes_valid.
  - intros [<-|[]]. apply (valid_rec_root_valid S o). now apply lca_valid.
Qed.

Section UDecode.
  Variables (S : stree) (c : costs) (rp : ret) (extended : bool) (total : fam -> nat).
  Hypothesis Hh : nn (c_hgt c).
  Notation tab := (utab S c rp extended total).

  Lemma udecode_leaf sp syn k P :
    udecode (tab (OLeaf sp syn)) (annotate total (OLeaf sp syn)) k P =
    if uassign_eqb k (sp, false) then [LLeaf sp (set_of syn)] else [].
  Proof.
    rewrite utab_leaf. cbn [udecode uread annotate u_lca u_gain].
    destruct (uassign_eqb_spec k (sp, false)) as [->|NE]; reflexivity.
  Qed.

  Lemma udecode_node a b k P t :
    In t (udecode (tab (ONode a b)) (annotate total (ONode a b)) k P) <->
    exists l r ta tb, In (l, r) (tags (uread (tab (ONode a b)) k)) /\
      In ta (udecode (tab a) (annotate total a) l (ucontent total P (ONode a b) (snd k))) /\
      In tb (udecode (tab b) (annotate total b) r (ucontent total P (ONode a b) (snd k))) /\
      t = LNode (fst k) (ucontent total P (ONode a b) (snd k)) ta tb.
  Proof.
    rewrite utab_node. cbn [udecode annotate]. cbv zeta. rewrite in_flat_map. split.
    - intros [[l r] [It H]]. apply in_flat_map in H as [ta [Ia H]]. apply in_map_iff in H as [tb [<- Ib]].
      exists l, r, ta, tb. repeat split; auto.
    - intros [l [r [ta [tb [It [Ia [Ib ->]]]]]]]. exists (l, r). split; auto.
      apply in_flat_map. exists ta. split; auto. apply in_map_iff. exists tb. auto.
  Qed.

  (** every decoded tree is a valid labelling below the given parent content; no hypothesis on the
      unit costs *)
  Theorem udecode_valid : forall o, leaves_ok S o -> bounded total o ->
    forall P k t, ucovers total P o ->
    In t (udecode (tab o) (annotate total o) k P) ->
    uvalid_under S total P o t /\ lroot t = fst k /\ lsyn t = ucontent total P o (snd k).
  Proof.
    induction o as [sp syn|a IHa b IHb]; intros L B P k t Cv H.
    - rewrite udecode_leaf in H. destruct (uassign_eqb_spec k (sp, false)) as [->|NE]; [|destruct H].
      destruct H as [<-|[]]. cbn [uvalid_under lroot lsyn fst snd ucontent annotate u_lca].
      repeat split; auto. intros f Hf.
      apply (ucontent_from total P (OLeaf sp syn) false B Cv f). exact Hf.
    - destruct L as [La Lb]. apply udecode_node in H as [l [r [ta [tb [It [Ia [Ib ->]]]]]]].
      rewrite utab_node in It. apply uread_node_tags in It as [Is It]; auto using utab_nn.
      cbv beta in It.
      destruct (ucell_tag_sound S c rp _ _ _ _ _ _ Hh (utab_nn S c rp extended total Hh a)
                  (utab_nn S c rp extended total Hh b) l r It) as [Il [Ir [F [k0 [i [j [If [Cl [Cr _]]]]]]]]].
      pose proof (bounded_l total a b B) as Ba. pose proof (bounded_r total a b B) as Bb.
      destruct (IHa La Ba _ l ta (ucontent_covers_l total P a b (snd k) B Cv) Ia) as [Va [Ra Ya]].
      destruct (IHb Lb Bb _ r tb (ucontent_covers_r total P a b (snd k) B Cv) Ib) as [Vb [Rb Yb]].
      cbn [uvalid_under lroot lsyn]. repeat split; auto.
      + apply (lca_root_allowed S extended (ONode a b)); [split; auto|exact Is].
      + rewrite Ra, Rb. eapply ufams_event; eauto.
      + apply ucontent_sorted.
      + apply ucontent_from; auto.
  Qed.
End UDecode.

(** ** the final entry *)
Lemma all_some_spec {A} (l : list (option A)) :
  (forall x, In x l -> exists y, x = Some y) -> exists l', all_some l = Some l' /\ l = map Some l'.
Proof.
  induction l as [|x l IH]; intros H.
  - exists []. auto.
  - destruct (H x (or_introl eq_refl)) as [y ->]. destruct IH as [l' [E1 E2]]; [intros z Hz; apply H; now right|].
    exists (y :: l'). simpl. rewrite E1. split; auto. simpl. now rewrite <- E2.
Qed.

Definition uspfs_cands (S : stree) (c : costs) (rp : ret) (extended : bool) (O : otree) : list (ext * option ltree) :=
  flat_map (fun s => map (fun lt => (ucost c O lt, Some lt))
     (udecode (utab S c rp extended (ototal O) O) (annotate_top O) (s, false) (u_lca (annotate_top O)))) (snodes S).

Lemma ototal_bounded O : bounded (ototal O) O.
Proof. intros f. unfold ototal. lia. Qed.

(* the root needs nothing from above *)
Lemma root_covers O P : ucovers (ototal O) P O.
Proof.
  intros f N G. rewrite gained_here_eq, N, andb_true_r in G. unfold ototal in G. rewrite Nat.eqb_refl in G. discriminate.
Qed.

Lemma udecode_root_anc S c rp extended O s P :
  udecode (utab S c rp extended (ototal O) O) (annotate_top O) (s, false) P =
  udecode (utab S c rp extended (ototal O) O) (annotate_top O) (s, false) [].
Proof.
  unfold annotate_top. fold (ototal O). generalize (ototal O) as total. intros total.
  destruct O as [sp syn|a b]; reflexivity.
Qed.

Section UFinalValid.
  Variables (S : stree) (c : costs) (rp : ret) (extended : bool) (O : otree).
  Hypothesis Hh : nn (c_hgt c).
  Hypothesis L : leaves_ok S O.

  Lemma udecode_root_valid s t :
    In t (udecode (utab S c rp extended (ototal O) O) (annotate_top O) (s, false) (u_lca (annotate_top O))) ->
    uvalid S O t /\ lroot t = s.
  Proof.
    rewrite udecode_root_anc. intros H.
    destruct (udecode_valid S c rp extended (ototal O) Hh O L (ototal_bounded O) [] (s, false) t (root_covers O []) H)
      as [V [R _]]. auto.
  Qed.

  Lemma uspfs_candidates_eq :
    uspfs_candidates S c rp extended O = map (fun x => Some x) (uspfs_cands S c rp extended O).
  Proof.
    unfold uspfs_candidates, uspfs_cands. cbv zeta. fold (utab S c rp extended (ototal O) O).
    induction (snodes S) as [|s l IH]; [reflexivity|].
    cbn [flat_map]. rewrite map_app, IH. f_equal. rewrite map_map.
    apply map_ext_in. intros t Ht. apply udecode_root_valid in Ht as [V _].
    rewrite (total_cost_events c O t (uvalid_events S _ O [] t V)). reflexivity.
  Qed.

  Lemma all_some_map {A} (l : list A) : all_some (map (fun x => Some x) l) = Some l.
  Proof. induction l as [|x l IH]; simpl; [reflexivity|]. now rewrite IH. Qed.

  (** the evaluator's assertion never fails: the solver returns an entry *)
  Theorem uspfs_some :
    uspfs S c rp extended O = Some (update ltree_eqb MIN rp (default_entry MIN) (uspfs_cands S c rp extended O)).
  Proof. unfold uspfs. rewrite uspfs_candidates_eq, all_some_map. reflexivity. Qed.

  Lemma in_uspfs_cands v t : In (v, Some t) (uspfs_cands S c rp extended O) <->
    exists s, In s (snodes S) /\
      In t (udecode (utab S c rp extended (ototal O) O) (annotate_top O) (s, false) (u_lca (annotate_top O))) /\
      v = ucost c O t.
  Proof.
    unfold uspfs_cands. rewrite in_flat_map. split.
    - intros [s [Is H]]. apply in_map_iff in H as [x [E Ix]]. inversion E; subst. eauto.
    - intros [s [Is [It ->]]]. exists s. split; auto. apply in_map_iff. eauto.
  Qed.
  Lemma uspfs_cands_some v ot : In (v, ot) (uspfs_cands S c rp extended O) -> exists t, ot = Some t.
  Proof.
    unfold uspfs_cands. rewrite in_flat_map. intros [s [_ H]]. apply in_map_iff in H as [x [E _]]. inversion E. eauto.
  Qed.

  (** C04 for the unordered solvers: every returned labelled tree is a valid unordered solution,
      whatever the policy and the unit costs *)
  Theorem uspfs_valid E t : uspfs S c rp extended O = Some E -> In t (tags E) ->
    uvalid S O t /\ total_cost c O false t = Some (ucost c O t).
  Proof.
    rewrite uspfs_some. intros [= <-] H.
    apply (upd_tags_sound ltree_eqb ltree_eqb_spec) in H.
    apply in_uspfs_cands in H as [s [_ [It _]]]. apply udecode_root_valid in It as [V _]. split; auto.
    apply total_cost_events. eapply uvalid_events; eauto.
  Qed.
End UFinalValid.

(** ** what validity says about one family: it occurs only inside the subtree of its gain node
    and, from that node down to any node holding it, at every node of the branch *)
Fixpoint lsub (t : ltree) (p : path) {struct p} : option ltree :=
  match p with
  | [] => Some t
  | b :: p' => match t with LNode _ _ ta tb => lsub (if b then tb else ta) p' | LLeaf _ _ => None end
  end.
(* every node of [t] on the branch from [g] down to [p] holds [f] *)
Definition holds_on (t : ltree) (f : fam) (g p : path) : Prop :=
  forall q tq, anc g q = true -> anc q p = true -> lsub t q = Some tq -> In f (lsyn tq).

Lemma anc_nil_inv q : anc q [] = true -> q = [].
Proof. destruct q; [reflexivity|discriminate]. Qed.

Lemma uvalid_head S total P o t : uvalid_under S total P o t ->
  forall f, In f (lsyn t) -> In f P \/ gained_here total o f = true.
Proof.
  destruct o, t; simpl; try contradiction.
  - intros [_ [_ [_ Fr]]]. exact Fr.
  - intros [_ [_ [_ [Fr _]]]]. exact Fr.
Qed.

Lemma uvalid_scope_gen S total f : forall p o t P tp,
  uvalid_under S total P o t -> lsub t p = Some tp -> In f (lsyn tp) ->
  (In f P /\ holds_on t f [] p) \/
  (exists g og, anc g p = true /\ osub o g = Some og /\ gained_here total og f = true /\ holds_on t f g p).
Proof.
  induction p as [|b p IH]; intros o t P tp V H I.
  - injection H as <-. destruct (uvalid_head S total P o t V f I) as [HP|G].
    + left. split; auto. intros q tq _ A2 Hq. apply anc_nil_inv in A2. subst q. injection Hq as <-. exact I.
    + right. exists [], o. repeat split; auto.
      intros q tq _ A2 Hq. apply anc_nil_inv in A2. subst q. injection Hq as <-. exact I.
  - destruct t as [|s y ta tb]; [discriminate|]. destruct o as [|a c]; [destruct V|].
    pose proof V as V0. destruct V as [_ [_ [_ [_ [Va Vb]]]]]. cbn [lsub] in H.
    assert (uvalid_under S total y (if b then c else a) (if b then tb else ta)) as Vc by (destruct b; auto).
    destruct (IH _ _ _ _ Vc H I) as [[Iy Hy]|[g [og [Ag [Hg [Gg Hd]]]]]].
    + (* the family comes from this node: look one level up *)
      assert (holds_on (LNode s y ta tb) f [] (b :: p)) as Hall.
      { intros q tq _ A2 Hq. destruct q as [|b' q].
        - injection Hq as <-. exact Iy.
        - simpl in A2. apply andb_true_iff in A2 as [Eb A2]. apply eqb_prop in Eb. subst b'.
          cbn [lsub] in Hq. apply (Hy q tq); auto. }
      destruct (uvalid_head S total P _ _ V0 f Iy) as [HP|G].
      * left. auto.
      * right. exists [], (ONode a c). repeat split; auto.
    + right. exists (b :: g), og. repeat split; auto.
      * simpl. now rewrite eqb_reflx, Ag.
      * intros q tq A1 A2 Hq. destruct q as [|b' q]; [discriminate|].
        simpl in A1, A2. apply andb_true_iff in A1 as [Eb A1]. apply andb_true_iff in A2 as [_ A2].
        apply eqb_prop in Eb. subst b'. cbn [lsub] in Hq. apply (Hd q tq); auto.
Qed.

Theorem uvalid_scope S O t : uvalid S O t -> forall p tp f, lsub t p = Some tp -> In f (lsyn tp) ->
  exists g, anc g p = true /\ is_lca_of_carriers O f g /\ holds_on t f g p.
Proof.
  intros V p tp f H I.
  destruct (uvalid_scope_gen S (ototal O) f p O t [] tp V H I) as [[[] _]|[g [og [Ag [Hg [Gg Hd]]]]]].
  exists g. split; [exact Ag|]. split; [now apply (gained_here_spec O g og f Hg)|exact Hd].
Qed.

(* the labelled tree has the shape of the object tree, leaves on their species with their syntenies *)
Fixpoint ushape (o : otree) (t : ltree) : Prop :=
  match o, t with
  | OLeaf sp syn, LLeaf s y => s = sp /\ y = set_of syn
  | ONode a b, LNode _ _ ta tb => ushape a ta /\ ushape b tb
  | _, _ => False
  end.
Lemma uvalid_shape_leaves S total : forall o P t, uvalid_under S total P o t -> ushape o t.
Proof.
  induction o as [sp syn|a IHa b IHb]; intros P [s y|s y ta tb] V; simpl in V; try contradiction; simpl.
  - tauto.
  - destruct V as [_ [_ [_ [_ [Va Vb]]]]]. eauto.
Qed.
Fixpoint all_sorted (t : ltree) : Prop :=
  ssorted (lsyn t) /\ match t with LLeaf _ _ => True | LNode _ _ a b => all_sorted a /\ all_sorted b end.
Lemma uvalid_sorted S total : forall o P t, uvalid_under S total P o t -> all_sorted t.
Proof.
  induction o as [sp syn|a IHa b IHb]; intros P [s y|s y ta tb] V; simpl in V; try contradiction; simpl.
  - destruct V as [_ [_ [-> _]]]. split; auto. apply ssorted_set_of.
  - destruct V as [_ [_ [Sy [_ [Va Vb]]]]]. eauto.
Qed.

(** * part 5: the optimiser's charge against the evaluator's *)

(* the coherent region of the unordered solvers *)
Definition ucoherent (c : costs) : Prop :=
  0 <= c_floss c /\ 0 <= c_sloss c /\ c_spe c + c_sloss c <= c_dup c + 2 * c_floss c.

(* segmental-loss charge of one node: [xa], [xb] = 1 when the edge to the child is lossy *)
Definition ucharge_ev (e : ev) (xa xb : Z) : Z :=
  match e with Spe => xa + xb | Dup => Z.min xa xb | TrL => xa | TrR => xb | Inv => 0 end.

Lemma ulab_node_charge e P L R : ulab_node_spec e P L R = ucharge_ev e (lossy P L) (lossy P R).
Proof. destruct e; reflexivity. Qed.

Lemma ext_min_assoc a b c : ext_min a (ext_min b c) = ext_min (ext_min a b) c.
Proof.
  unfold ext_min. destruct a, b, c; simpl; try reflexivity;
    repeat match goal with |- context [Z.ltb ?u ?v] => destruct (Z.ltb_spec u v); simpl end;
    try reflexivity; try lia.
Qed.
Lemma ext_min_idem a : ext_min a a = a.
Proof. unfold ext_min. now rewrite ext_ltb_irrefl. Qed.

Lemma guard_or_min a b x R : ext_min (guard a x) (ext_min (guard b x) R) = ext_min (guard (a || b) x) R.
Proof.
  destruct a, b; cbn [guard orb]; rewrite ?ext_min_PInf_l; auto.
  now rewrite ext_min_assoc, ext_min_idem.
Qed.
Lemma guard_min_Fin g a b R :
  ext_min (guard g (Fin a)) (ext_min (guard g (Fin b)) R) = ext_min (guard g (Fin (Z.min a b))) R.
Proof.
  destruct g; cbn [guard]; rewrite ?ext_min_PInf_l; auto. rewrite ext_min_assoc. f_equal.
  unfold ext_min. simpl. destruct (Z.ltb_spec b a); f_equal; lia.
Qed.

Lemma in_left_not_leaf S s l : In l (snodes S) -> in_left s l = true -> sleaf S s = false.
Proof.
  intros Il H. unfold in_left in H. apply anc_snoc_inv in H as [y ->]. apply snodes_valid in Il.
  eapply valid_sp_not_leaf; eauto.
Qed.
Lemma in_right_not_leaf S s l : In l (snodes S) -> in_right s l = true -> sleaf S s = false.
Proof.
  intros Il H. unfold in_right in H. apply anc_snoc_inv in H as [y ->]. apply snodes_valid in Il.
  eapply valid_sp_not_leaf; eauto.
Qed.

Lemma Fin_eq a b : a = b -> Fin a = Fin b. Proof. congruence. Qed.

Section UOcost.
  Variables (S : stree) (c : costs) (s : path) (kind la lb : bool) (l r : path) (kl kr : bool) (xa xb : Z).
  Hypothesis Il : In l (snodes S).
  Hypothesis Ir : In r (snodes S).
  Hypothesis Hs : 0 <= c_sloss c.
  Hypothesis Xa : xa = 0 \/ xa = 1.
  Hypothesis Xb : xb = 0 \/ xb = 1.
  Hypothesis Hca : ucc c kind la kl = Fin (c_sloss c * xa).
  Hypothesis Hcb : ucc c kind lb kr = Fin (c_sloss c * xb).
  Hypothesis Hfa : ufc kind la kl = Fin 0.
  Hypothesis Hfb : ufc kind lb kr = Fin 0.

  Lemma uocost_form :
    uocost S c s kind la lb (l, kl) (r, kr) =
    ext_min (guard (spe_cfg s l r) (Fin (c_spe c + c_floss c * (dist s l + dist s r - 2) + c_sloss c * (xa + xb))))
   (ext_min (guard (anc s l && anc s r) (Fin (c_dup c + c_floss c * (dist s l + dist s r) + c_sloss c * Z.min xa xb)))
   (ext_min (guard (anc s l && separate s r) (ext_add (c_hgt c) (Fin (c_floss c * dist s l + c_sloss c * xa))))
            (guard (separate s l && anc s r) (ext_add (c_hgt c) (Fin (c_floss c * dist s r + c_sloss c * xb)))))).
  Proof.
    unfold uocost, ufams. cbn [minl fst snd ucharge ucond]. rewrite Hca, Hcb, Hfa, Hfb. cbn [ext_add].
    rewrite ext_min_PInf_r.
    (* speciation *)
    replace (Fin (c_spe c + (dist s l * c_floss c - c_floss c + c_sloss c * xa) + (dist s r * c_floss c - c_floss c + c_sloss c * xb)))
      with (Fin (c_spe c + c_floss c * (dist s l + dist s r - 2) + c_sloss c * (xa + xb))) by (apply Fin_eq; ring).
    rewrite guard_or_min.
    assert ((negb (sleaf S s) && in_left s l && (negb (sleaf S s) && in_right s r)
             || negb (sleaf S s) && in_right s l && (negb (sleaf S s) && in_left s r)) = spe_cfg s l r) as ->.
    { unfold spe_cfg. destruct (sleaf S s) eqn:SL; cbn [negb andb orb]; auto.
      destruct (in_left s l) eqn:E1; [rewrite (in_left_not_leaf S s l Il E1) in SL; discriminate|].
      destruct (in_right s l) eqn:E2; [rewrite (in_right_not_leaf S s l Il E2) in SL; discriminate|]. reflexivity. }
    f_equal.
    (* duplication *)
    rewrite guard_min_Fin. f_equal.
    - f_equal. apply Fin_eq. destruct Xa as [-> | ->], Xb as [-> | ->]; lia.
    - (* transfers *)
      rewrite !ext_add_0_r. f_equal; f_equal; f_equal; apply Fin_eq; ring.
  Qed.

  (** inside the coherent region, the optimiser's charge is the evaluator's: event cost, full
      losses and segmental losses of the two edges *)
  Theorem uocost_ecost : 0 <= c_floss c -> c_spe c + c_sloss c <= c_dup c + 2 * c_floss c ->
    uocost S c s kind la lb (l, kl) (r, kr) =
    ext_add (ecost c s l r) (Fin (c_sloss c * ucharge_ev (event s l r) xa xb)).
  Proof.
    intros Hf Hc. rewrite uocost_form. unfold ecost, event, separate.
    destruct (anc s l) eqn:Al, (anc s r) eqn:Ar; cbn [andb negb guard].
    - rewrite (sanc_false_of_anc _ _ Al), (sanc_false_of_anc _ _ Ar). cbn [orb].
      rewrite !ext_min_PInf_r.
      pose proof (spe_config s l r Al Ar) as SC.
      destruct (path_eqb s (lcp l r) && negb (comparable l r)) eqn:E1;
      destruct (spe_cfg s l r) eqn:E2;
        try (exfalso; destruct SC as [S1 S2]; (discriminate (S1 eq_refl) || discriminate (S2 eq_refl))).
      + cbn [guard ucharge_ev ext_add]. rewrite ext_min_Fin; [apply Fin_eq; ring|].
        assert (2 <= dist s l + dist s r).
        { rewrite (dist_anc _ _ Al), (dist_anc _ _ Ar). unfold spe_cfg, in_left, in_right in E2.
          apply orb_true_iff in E2 as [H|H]; apply andb_true_iff in H as [H1 H2];
            apply is_prefix_length in H1, H2; rewrite app_length in H1, H2; simpl in *; unfold len; lia. }
        destruct Xa as [-> | ->], Xb as [-> | ->]; nia.
      + cbn [guard ucharge_ev ext_add]. rewrite ext_min_PInf_l. apply Fin_eq; ring.
    - rewrite (sanc_false_of_anc _ _ Al). rewrite (spe_cfg_false_r s l r Ar). cbn [guard orb].
      rewrite !ext_min_PInf_l. unfold sanc. destruct (anc r s) eqn:Rs; cbn [negb andb guard].
      + destruct (path_eqb_spec r s) as [->|NE]; [rewrite is_prefix_refl in Ar; discriminate|].
        cbn [negb]. reflexivity.
      + cbn [andb ucharge_ev]. destruct (c_hgt c); cbn [ext_add]; auto. apply Fin_eq; ring.
    - rewrite (sanc_false_of_anc _ _ Ar). rewrite orb_false_r. rewrite (spe_cfg_false_l s l r Al).
      cbn [guard]. rewrite !ext_min_PInf_l. unfold sanc. destruct (anc l s) eqn:Ls; cbn [negb andb guard].
      + destruct (path_eqb_spec l s) as [->|NE]; [rewrite is_prefix_refl in Al; discriminate|]. reflexivity.
      + cbn [ucharge_ev]. destruct (c_hgt c); cbn [ext_add]; auto. apply Fin_eq; ring.
    - rewrite (spe_cfg_false_l s l r Al). cbn [guard]. rewrite ?andb_false_r. cbn [guard].
      rewrite !ext_min_PInf_l. destruct (sanc l s || sanc r s); reflexivity.
  Qed.
End UOcost.

(* when an edge charge is infinite the whole node charge is *)
Lemma uocost_inf_l S c s kind la lb l r kr : ufc kind la (snd l) = PInf -> uocost S c s kind la lb l (r, kr) = PInf.
Proof.
  intros H. assert (ucc c kind la (snd l) = PInf) as H'.
  { unfold ufc, ucc in *. destruct kind, (snd l), la; try discriminate; reflexivity. }
  unfold uocost, ufams. cbn [minl fst snd ucharge]. rewrite H, H'.
  rewrite !LcaProofs.ext_add_PInf_r.
  repeat match goal with |- context [guard ?g ?v] => destruct g; cbn [guard] end;
  repeat match goal with |- context [ext_add ?a PInf] => rewrite (LcaProofs.ext_add_PInf_r a) end;
  repeat match goal with |- context [ext_add PInf ?a] => change (ext_add PInf a) with PInf end; reflexivity.
Qed.
