(** C11, clause "hence the same events and cost", on the evaluator model.

    [Model/CliRun.v] holds the model of [ReconciliationOutput.cost()] /
    [SuperReconciliationOutput.cost()] applied to an object of the dictionary layer:
    [eval_routput] / [eval_soutput] turn the object into the evaluator's own data
    ([to_costs], [to_otree], [to_rtree] / [to_ltree]) and call [Recon.cost] /
    [Recon.total_cost].  This file proves that the object obtained by [to_dict] then
    [from_dict] ([back_routput] / [back_soutput] of Proofs/SerialProofs.v) is evaluated
    to the same node events and the same cost as the original:

    - plain outputs: the evaluator only reads [base_of (r_in x)] and [omap x], which
      the round trip keeps (a nested SuperReconciliationInput comes back as the plain
      input [base_of ...]);
    - labelled outputs: the labelling comes back as [norm_syn (syns x)]: sequences
      verbatim, sets as the sorted list of their elements.  For [ordered x = false]
      the labelled tree read from it differs from the original one only by the order
      in which the families of a node are listed ([same_labelled false]), and the
      unordered labelling cost ([ulab_rec]: set inclusion tests only) does not see
      that order.  For [ordered x = true] every synteny has to be a sequence: the
      package's [_ordered_labeling_cost] subscripts the syntenies ([child[child_i]]
      raises TypeError on a set) and enumerates the root synteny in iteration order;
      the model reads an [SSet] in its listing order, so the equality is simply false
      there (Example [C11_ordered_sets_outside_domain] in Properties/C11.v).

    Depends on Model/* , Proofs/SerialProofs.v and Proofs/ReconProofs.v ([events]) only. *)
From Coq Require Import List Bool Arith ZArith NArith String Permutation.
From SR Require Proofs.ReconProofs.
From SR Require Import Base.PathB Base.Ext Model.Recon Model.Newick Model.CliRun Model.Serial
  Proofs.NewickProofs Proofs.SerialProofs.
Import ListNotations.

(** * Labellings up to the listing order of the families *)
Definition syn_equiv (s s' : syn) : Prop := Permutation (syn_items s) (syn_items s').
(* the same keys in the same order, each synteny with the same families *)
Definition synmap_equiv (m m' : synmap) : Prop :=
  Forall2 (fun a b => fst a = fst b /\ syn_equiv (snd a) (snd b)) m m'.

Lemma synmap_equiv_sym m m' : synmap_equiv m m' -> synmap_equiv m' m.
Proof.
  induction 1 as [|a b m m' [Hk Hp] _ IH]; constructor; auto.
  split; [now symmetry | apply Permutation_sym, Hp].
Qed.

Lemma synmap_equiv_refl m : synmap_equiv m m.
Proof. induction m; constructor; auto. split; [reflexivity | apply Permutation_refl]. Qed.

(* what the round trip does to a labelling *)
Lemma norm_syn_equiv m : synmap_equiv m (norm_syn m).
Proof.
  induction m as [|[p s] m IH]; cbn; constructor; auto. cbn. split; [reflexivity|].
  unfold syn_equiv. cbn. apply Permutation_sym, ser_syn_perm.
Qed.

Lemma sub_map_equiv i m m' : synmap_equiv m m' -> synmap_equiv (sub_map i m) (sub_map i m').
Proof.
  induction 1 as [|[p s] [p' s'] m m' [Hk Hp] _ IH]; [constructor|]. cbn in Hk. subst p'.
  unfold sub_map. cbn [flat_map fst snd]. fold (sub_map i m). fold (sub_map i m').
  destruct p as [|j q]; cbn [app]; [exact IH|].
  destruct (Nat.eqb i j); cbn [app]; [|exact IH]. constructor; auto.
Qed.

Definition opt_rel {A} (R : A -> A -> Prop) (a b : option A) : Prop :=
  match a, b with
  | Some x, Some y => R x y
  | None, None => True
  | _, _ => False
  end.

Lemma at_root_equiv m m' : synmap_equiv m m' -> opt_rel syn_equiv (at_root m) (at_root m').
Proof.
  unfold at_root. induction 1 as [|[p s] [p' s'] m m' [Hk Hp] _ IH]; [exact I|]. cbn in Hk. subst p'.
  cbn [find fst]. destruct p; [exact Hp | exact IH].
Qed.

Lemma mapM_perm_some {A B} (f : A -> option B) l l' : Permutation l l' ->
  forall ys, mapM f l = Some ys -> exists ys', mapM f l' = Some ys' /\ Permutation ys ys'.
Proof.
  induction 1 as [|x l l' _ IH|x y l|l l' l'' _ IH1 _ IH2]; intros ys E.
  - exists ys. split; auto.
  - cbn in E. destruct (f x) as [b|] eqn:Ex; [|discriminate].
    destruct (mapM f l) as [bs|] eqn:El; [|discriminate].
    inversion E; subst. destruct (IH bs eq_refl) as [bs' [E' P]]. exists (b :: bs'). cbn.
    rewrite Ex, E'. split; auto.
  - cbn in E. destruct (f y) as [b|] eqn:Ey; [|discriminate]. destruct (f x) as [a|] eqn:Ex; [|discriminate].
    destruct (mapM f l) as [bs|] eqn:El; [|discriminate]. inversion E; subst.
    exists (a :: b :: bs). cbn. rewrite Ex, Ey, El. split; [reflexivity | apply perm_swap].
  - destruct (IH1 ys E) as [ys1 [E1 P1]]. destruct (IH2 ys1 E1) as [ys2 [E2 P2]]. exists ys2. split; auto.
    eapply perm_trans; eauto.
Qed.

(* the numbered synteny of the root, as [to_ltree] reads it *)
Definition syn_here (num : string -> option fam) (sy : synmap) : option (list fam) :=
  match at_root sy with Some s => mapM num (syn_items s) | None => None end.

Lemma syn_here_equiv num sy sy' y : synmap_equiv sy sy' -> syn_here num sy = Some y ->
  exists y', syn_here num sy' = Some y' /\ Permutation y y'.
Proof.
  intros H E. unfold syn_here in *. pose proof (at_root_equiv _ _ H) as R.
  destruct (at_root sy) as [s|]; [|discriminate]. destruct (at_root sy') as [s'|]; [|contradiction].
  cbn in R. exact (mapM_perm_some num _ _ R y E).
Qed.

Lemma to_ltree_leaf num n c m sy :
  to_ltree num (Node n c []) m sy =
    match at_root m, syn_here num sy with
    | Some q, Some y => option_map (fun s => LLeaf s y) (to_bpath q)
    | _, _ => None
    end.
Proof. unfold syn_here. cbn. destruct (at_root sy) as [[l|l]|]; reflexivity. Qed.

Lemma to_ltree_node num n c a b m sy :
  to_ltree num (Node n c [a; b]) m sy =
    match at_root m, syn_here num sy,
          to_ltree num a (sub_map 0 m) (sub_map 0 sy), to_ltree num b (sub_map 1 m) (sub_map 1 sy) with
    | Some q, Some y, Some la, Some lb => option_map (fun s => LNode s y la lb) (to_bpath q)
    | _, _, _, _ => None
    end.
Proof. unfold syn_here. cbn. destruct (at_root sy) as [[l|l]|]; reflexivity. Qed.

Lemma to_ltree_other num n c a b z ks m sy : to_ltree num (Node n c (a :: b :: z :: ks)) m sy = None.
Proof. reflexivity. Qed.
Lemma to_ltree_one num n c a m sy : to_ltree num (Node n c [a]) m sy = None.
Proof. reflexivity. Qed.

Arguments to_ltree : simpl never.
Arguments to_otree : simpl never.
Arguments to_costs : simpl never.

(** * Labelled trees up to the listing order of the families at the nodes *)
Definition same_syn (ord : bool) (y y' : list fam) : Prop := if ord then y = y' else Permutation y y'.
(* the same shape, the same species at every node; the same synteny at every node: the same
   sequence when [ord], the same families listed in any order otherwise *)
Fixpoint same_labelled (ord : bool) (t t' : ltree) : Prop :=
  match t, t' with
  | LLeaf s y, LLeaf s' y' => s = s' /\ same_syn ord y y'
  | LNode s y a b, LNode s' y' a' b' =>
      s = s' /\ same_syn ord y y' /\ same_labelled ord a a' /\ same_labelled ord b b'
  | _, _ => False
  end.

Lemma same_syn_refl ord y : same_syn ord y y.
Proof. destruct ord; cbn; [reflexivity | apply Permutation_refl]. Qed.
Lemma same_labelled_refl ord : forall t, same_labelled ord t t.
Proof. induction t; cbn; repeat split; auto using same_syn_refl. Qed.

Lemma same_labelled_true_eq : forall t t', same_labelled true t t' -> t = t'.
Proof.
  induction t as [s y|s y a IHa b IHb]; intros [s' y'|s' y' a' b'] H; cbn in H; try contradiction.
  - destruct H as [-> ->]. reflexivity.
  - destruct H as [-> [-> [Ha Hb]]]. now rewrite (IHa _ Ha), (IHb _ Hb).
Qed.

Lemma same_labelled_forget ord : forall t t', same_labelled ord t t' -> forget t' = forget t.
Proof.
  induction t as [s y|s y a IHa b IHb]; intros [s' y'|s' y' a' b'] H; cbn in H; try contradiction.
  - destruct H as [-> _]. reflexivity.
  - destruct H as [-> [_ [Ha Hb]]]. cbn. now rewrite (IHa _ Ha), (IHb _ Hb).
Qed.
Lemma same_labelled_lroot ord t t' : same_labelled ord t t' -> lroot t = lroot t'.
Proof. destruct t, t'; cbn; try contradiction; tauto. Qed.
Lemma same_labelled_lsyn t t' : same_labelled false t t' -> Permutation (lsyn t) (lsyn t').
Proof. destruct t, t'; cbn; try contradiction; tauto. Qed.

(* set inclusion does not see the listing order *)
Lemma subset_perm a a' b b' : Permutation a a' -> Permutation b b' -> subset a b = subset a' b'.
Proof.
  intros Pa Pb. apply eq_true_iff_eq. unfold subset. rewrite !forallb_forall. split; intros H x Hx.
  - apply (Permutation_in _ (Permutation_sym Pa)) in Hx. specialize (H x Hx).
    apply existsb_exists in H as [z [Hz E]].
    apply existsb_exists. exists z. split; auto. eapply Permutation_in; eauto.
  - apply (Permutation_in _ Pa) in Hx. specialize (H x Hx). apply existsb_exists in H as [z [Hz E]].
    apply existsb_exists. exists z. split; auto. eapply Permutation_in; [apply Permutation_sym|]; eauto.
Qed.

Lemma ulab_rec_same : forall t t', same_labelled false t t' -> ulab_rec t' = ulab_rec t.
Proof.
  induction t as [s y|s y a IHa b IHb]; intros [s' y'|s' y' a' b'] H; cbn in H; try contradiction; [reflexivity|].
  destruct H as [-> [Py [Ha Hb]]]. cbn [ulab_rec]. cbn in Py.
  rewrite (subset_perm y y' (lsyn a) (lsyn a') Py (same_labelled_lsyn _ _ Ha)).
  rewrite (subset_perm y y' (lsyn b) (lsyn b') Py (same_labelled_lsyn _ _ Hb)).
  rewrite (same_labelled_lroot _ _ _ Ha), (same_labelled_lroot _ _ _ Hb), (IHa _ Ha), (IHb _ Hb). reflexivity.
Qed.

(* [SuperReconciliationOutput.cost()] does not see in which order the families of an
   unordered synteny are listed (and, trivially, is a function of the tree when ordered) *)
Theorem total_cost_same_labelled c O ord t t' :
  same_labelled ord t t' -> total_cost c O ord t' = total_cost c O ord t.
Proof.
  destruct ord; intros H.
  - now rewrite (same_labelled_true_eq _ _ H).
  - unfold total_cost, labeling_cost, unordered_labeling_cost.
    now rewrite (same_labelled_forget _ _ _ H), (ulab_rec_same _ _ H).
Qed.

(** * [to_ltree] on equivalent labellings *)
Lemma to_ltree_equiv num : forall t1 tr m sy sy', synmap_equiv sy sy' ->
  to_ltree num tr m sy = Some t1 ->
  exists t2, to_ltree num tr m sy' = Some t2 /\ same_labelled false t1 t2.
Proof.
  induction t1 as [s y|s y la IHa lb IHb]; intros [n c [|a [|b [|z ks]]]] m sy sy' H E;
    try (rewrite to_ltree_one in E; discriminate); try (rewrite to_ltree_other in E; discriminate).
  - rewrite to_ltree_leaf in E. rewrite to_ltree_leaf.
    destruct (at_root m) as [q|]; [|discriminate]. destruct (syn_here num sy) as [y0|] eqn:Ey; [|discriminate].
    destruct (to_bpath q) as [s0|]; [|discriminate]. cbn in E. inversion E; subst s0 y0.
    destruct (syn_here_equiv num sy sy' y H Ey) as [y' [Ey' P]]. rewrite Ey'. cbn.
    exists (LLeaf s y'). split; [reflexivity|]. cbn. auto.
  - rewrite to_ltree_node in E.
    destruct (at_root m) as [q|]; [|discriminate]. destruct (syn_here num sy) as [y0|]; [|discriminate].
    destruct (to_ltree num a _ _); [|discriminate]. destruct (to_ltree num b _ _); [|discriminate].
    destruct (to_bpath q); discriminate.
  - rewrite to_ltree_leaf in E.
    destruct (at_root m) as [q|]; [|discriminate]. destruct (syn_here num sy) as [y0|]; [|discriminate].
    destruct (to_bpath q); discriminate.
  - rewrite to_ltree_node in E. rewrite to_ltree_node.
    destruct (at_root m) as [q|]; [|discriminate]. destruct (syn_here num sy) as [y0|] eqn:Ey; [|discriminate].
    destruct (to_ltree num a (sub_map 0 m) (sub_map 0 sy)) as [la0|] eqn:Ea; [|discriminate].
    destruct (to_ltree num b (sub_map 1 m) (sub_map 1 sy)) as [lb0|] eqn:Eb; [|discriminate].
    destruct (to_bpath q) as [s0|]; [|discriminate]. cbn in E. inversion E; subst s0 y0 la0 lb0.
    destruct (syn_here_equiv num sy sy' y H Ey) as [y' [Ey' P]].
    destruct (IHa a (sub_map 0 m) (sub_map 0 sy) (sub_map 0 sy') (sub_map_equiv 0 _ _ H) Ea) as [la' [Ea' Ra]].
    destruct (IHb b (sub_map 1 m) (sub_map 1 sy) (sub_map 1 sy') (sub_map_equiv 1 _ _ H) Eb) as [lb' [Eb' Rb]].
    rewrite Ey', Ea', Eb'. cbn. exists (LNode s y' la' lb'). split; [reflexivity|]. cbn. auto.
Qed.

Lemma same_labelled_false_sym : forall t t', same_labelled false t t' -> same_labelled false t' t.
Proof.
  induction t as [s y|s y a IHa b IHb]; intros [s' y'|s' y' a' b'] H; cbn in H; try contradiction; cbn.
  - destruct H as [-> P]. split; [reflexivity | apply Permutation_sym, P].
  - destruct H as [-> [P [Ha Hb]]]. repeat split; auto. apply Permutation_sym, P.
Qed.

Theorem to_ltree_synmap_equiv num tr m sy sy' : synmap_equiv sy sy' ->
  opt_rel (same_labelled false) (to_ltree num tr m sy) (to_ltree num tr m sy').
Proof.
  intros H. destruct (to_ltree num tr m sy) as [t1|] eqn:E1.
  - destruct (to_ltree_equiv num t1 tr m sy sy' H E1) as [t2 [-> R]]. exact R.
  - destruct (to_ltree num tr m sy') as [t2|] eqn:E2; [|exact I].
    destruct (to_ltree_equiv num t2 tr m sy' sy (synmap_equiv_sym _ _ H) E2) as [t1 [E1' _]]. congruence.
Qed.

Definition all_sequences (m : synmap) : Prop := Forall (fun ps => exists l, snd ps = SList l) m.

(* the labelled tree the evaluator builds from the re-read labelling *)
Theorem to_ltree_norm_syn num tr m sy ord : (ord = true -> all_sequences sy) ->
  opt_rel (same_labelled ord) (to_ltree num tr m sy) (to_ltree num tr m (norm_syn sy)).
Proof.
  destruct ord; intros H.
  - rewrite (norm_syn_lists sy (H eq_refl)). destruct (to_ltree num tr m sy); cbn; auto using same_labelled_refl.
  - apply to_ltree_synmap_equiv, norm_syn_equiv.
Qed.

(* the species mapping part of the labelled tree is the plain reconciliation *)
Lemma to_ltree_forget num : forall lt tr m sy, to_ltree num tr m sy = Some lt -> to_rtree tr m = Some (forget lt).
Proof.
  induction lt as [s y|s y la IHa lb IHb]; intros [n c [|a [|b [|z ks]]]] m sy E;
    try (rewrite to_ltree_one in E; discriminate); try (rewrite to_ltree_other in E; discriminate).
  - rewrite to_ltree_leaf in E. cbn.
    destruct (at_root m) as [q|]; [|discriminate]. destruct (syn_here num sy); [|discriminate].
    destruct (to_bpath q); [|discriminate]. cbn in E. inversion E; subst. reflexivity.
  - rewrite to_ltree_node in E.
    destruct (at_root m) as [q|]; [|discriminate]. destruct (syn_here num sy); [|discriminate].
    destruct (to_ltree num a _ _); [|discriminate]. destruct (to_ltree num b _ _); [|discriminate].
    destruct (to_bpath q); discriminate.
  - rewrite to_ltree_leaf in E.
    destruct (at_root m) as [q|]; [|discriminate]. destruct (syn_here num sy); [|discriminate].
    destruct (to_bpath q); discriminate.
  - rewrite to_ltree_node in E. cbn.
    destruct (at_root m) as [q|]; [|discriminate]. destruct (syn_here num sy); [|discriminate].
    destruct (to_ltree num a (sub_map 0 m) (sub_map 0 sy)) as [la0|] eqn:Ea; [|discriminate].
    destruct (to_ltree num b (sub_map 1 m) (sub_map 1 sy)) as [lb0|] eqn:Eb; [|discriminate].
    destruct (to_bpath q) as [s0|]; [|discriminate]. cbn in E. inversion E; subst.
    rewrite (IHa _ _ _ Ea), (IHb _ _ _ Eb). reflexivity.
Qed.

(** * The evaluated objects: events and cost *)

(* the species of every object node, as the evaluator reads them from an output *)
Definition rec_of (x : routput) : option rtree := to_rtree (Serial.otree (base_of (r_in x))) (omap x).
(* ... with the synteny of every node *)
Definition lab_of (num : string -> option fam) (x : soutput) : option ltree :=
  to_ltree num (Serial.otree (base_of (r_in (s_out x)))) (omap (s_out x)) (syns x).
(* [node_event] of every internal object node, in pre-order; [None]: the object cannot be
   evaluated (KeyError, not binary).  A SuperReconciliationOutput inherits [node_event]:
   its events are those of its species mapping, [output_events (s_out x)] *)
Definition output_events (x : routput) : option (list Recon.ev) := option_map ReconProofs.events (rec_of x).

Lemma lab_of_rec_of num x t : lab_of num x = Some t -> rec_of (s_out x) = Some (forget t).
Proof. apply to_ltree_forget. Qed.

Lemma rec_of_back x : rec_of (back_routput x) = rec_of x.
Proof. reflexivity. Qed.
Lemma output_events_back x : output_events (back_routput x) = output_events x.
Proof. reflexivity. Qed.
Theorem eval_routput_back x : eval_routput (back_routput x) = eval_routput x.
Proof. reflexivity. Qed.

Theorem lab_of_back num x : (ordered x = true -> all_sequences (syns x)) ->
  opt_rel (same_labelled (ordered x)) (lab_of num x) (lab_of num (back_soutput x)).
Proof. intros H. unfold lab_of. cbn [back_soutput back_routput s_out r_in omap syns base_of]. now apply to_ltree_norm_syn. Qed.

Theorem eval_soutput_back num x : (ordered x = true -> all_sequences (syns x)) ->
  eval_soutput num (back_soutput x) = eval_soutput num x.
Proof.
  intros H. pose proof (lab_of_back num x H) as R. unfold lab_of in R. unfold eval_soutput.
  cbn [back_soutput back_routput s_out r_in omap syns base_of ordered] in *.
  destruct (to_costs _) as [c|]; [|reflexivity]. destruct (to_otree _ _ None) as [Ot|]; [|reflexivity].
  destruct (to_ltree num _ _ (syns x)) as [t|]; destruct (to_ltree num _ _ (norm_syn (syns x))) as [t'|];
    cbn in R; try contradiction; [|reflexivity].
  now apply total_cost_same_labelled.
Qed.

(* the definitions used in the statements, unfolded *)
Lemma vocabulary :
  (forall x, rec_of x = to_rtree (Serial.otree (base_of (r_in x))) (omap x)) /\
  (forall num x, lab_of num x =
     to_ltree num (Serial.otree (base_of (r_in (s_out x)))) (omap (s_out x)) (syns x)) /\
  (forall x, output_events x = option_map ReconProofs.events (rec_of x)) /\
  (forall m, all_sequences m <-> Forall (fun ps => exists l, snd ps = SList l) m) /\
  (forall m m', synmap_equiv m m' <->
     Forall2 (fun a b => fst a = fst b /\ Permutation (syn_items (snd a)) (syn_items (snd b))) m m') /\
  (forall ord s y s' y', same_labelled ord (LLeaf s y) (LLeaf s' y') <->
     s = s' /\ (if ord then y = y' else Permutation y y')) /\
  (forall ord s y a b s' y' a' b', same_labelled ord (LNode s y a b) (LNode s' y' a' b') <->
     s = s' /\ (if ord then y = y' else Permutation y y') /\
     same_labelled ord a a' /\ same_labelled ord b b') /\
  (forall ord s y s' y' a' b', ~ same_labelled ord (LLeaf s y) (LNode s' y' a' b') /\
                               ~ same_labelled ord (LNode s' y' a' b') (LLeaf s y)) /\
  (forall (A : Type) (R : A -> A -> Prop) a b,
     opt_rel R a b <-> (a = None /\ b = None) \/ exists u v, a = Some u /\ b = Some v /\ R u v).
Proof.
  split; [reflexivity|]. split; [reflexivity|]. split; [reflexivity|].
  split; [intros m; reflexivity|]. split; [intros m m'; reflexivity|].
  split; [intros; reflexivity|]. split; [intros; reflexivity|].
  split; [intros; cbn; tauto|].
  intros A R a b. split.
  - destruct a as [u|], b as [v|]; cbn; intros H; try contradiction; [right; eauto | left; auto].
  - intros [[-> ->]|[u [v [-> [-> H]]]]]; cbn; auto.
Qed.

(** * The round trip and the evaluator, for any Newick writer/reader pair that
      round-trips on [ok] trees *)
Section EvalRoundtrip.
  Variable write : tree -> string.
  Variable read : string -> option tree.
  Variable ok : tree -> Prop.
  Hypothesis read_write : forall t, ok t -> read (write t) = Some t.

  Theorem same_events_and_cost_plain x :
    wf_routput ok x ->
    exists d x', routput_to_dict write x = Some d /\
                 routput_from_dict read d = Some x' /\
                 rec_of x' = rec_of x /\
                 output_events x' = output_events x /\
                 eval_routput x' = eval_routput x.
  Proof.
    intro H. exists (dict_of_routput write x), (back_routput x). repeat split.
    - apply (routput_to_dict_spec write ok), H.
    - apply (routput_from_dict_spec write read ok read_write), H.
  Qed.

  Theorem same_events_and_cost_super num x :
    wf_soutput ok x ->
    (ordered x = true -> all_sequences (syns x)) ->
    exists d x', soutput_to_dict write x = Some d /\
                 soutput_from_dict read d = Some x' /\
                 ordered x' = ordered x /\
                 rec_of (s_out x') = rec_of (s_out x) /\
                 output_events (s_out x') = output_events (s_out x) /\
                 opt_rel (same_labelled (ordered x)) (lab_of num x) (lab_of num x') /\
                 eval_soutput num x' = eval_soutput num x.
  Proof.
    intros H Hs. exists (dict_of_soutput write x), (back_soutput x). repeat split.
    - apply (soutput_to_dict_spec write ok), H.
    - apply (soutput_from_dict_spec write read ok read_write), H.
    - apply lab_of_back, Hs.
    - apply eval_soutput_back, Hs.
  Qed.
End EvalRoundtrip.

Definition nk_same_events_and_cost_plain :=
  same_events_and_cost_plain print_tree parse_tree well_named newick_roundtrip.
Definition nk_same_events_and_cost_super :=
  same_events_and_cost_super print_tree parse_tree well_named newick_roundtrip.

(** * Congruence lemmas (true of ANY function [f] of the preserved fields; they say
      nothing about the evaluator, see the theorems above for that).  For labelled
      outputs [f] has to respect [synmap_equiv]: same keys, same families per node. *)
Theorem congruence_super_equiv (write : tree -> string) (read : string -> option tree) (ok : tree -> Prop)
    (read_write : forall t, ok t -> read (write t) = Some t)
    {A} (f : rinput -> treemap -> synmap -> bool -> A) x :
  wf_soutput ok x ->
  (forall b m o sy sy', synmap_equiv sy sy' -> f b m sy o = f b m sy' o) ->
  exists d x', soutput_to_dict write x = Some d /\
               soutput_from_dict read d = Some x' /\
               f (base_of (r_in (s_out x'))) (omap (s_out x')) (syns x') (ordered x') =
               f (base_of (r_in (s_out x))) (omap (s_out x)) (syns x) (ordered x).
Proof.
  intros H Hf. exists (dict_of_soutput write x), (back_soutput x). repeat split.
  - apply (soutput_to_dict_spec write ok), H.
  - apply (soutput_from_dict_spec write read ok read_write), H.
  - cbn. symmetry. apply Hf, norm_syn_equiv.
Qed.
Definition nk_congruence_super_equiv (A : Type) :=
  congruence_super_equiv print_tree parse_tree well_named newick_roundtrip (A := A).
