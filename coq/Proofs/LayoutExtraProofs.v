(** C14, complements to [Proofs/LayoutProofs.v]:
    - the two defaults of the layout model ([zip_sizes] reading a missing measure as
      [(0, 0)], [layout] reading a missing species as [empty_slay]) are never taken on the
      inputs Python can produce;
    - a sufficient condition, on widths only, for "every trunk lies inside its own box";
    - concrete, kernel-evaluated examples for the hypotheses of the trunk theorem and for
      the mirror law. *)
From Coq Require Import List Bool Arith QArith Qminmax Lia Lqa.
From SR Require Import Base.PathB Model.Recon Model.Branches Model.Layout Proofs.PathFacts Proofs.ReconProofs Proofs.BranchesProofs Proofs.LayoutProofs.
Import ListNotations.
Local Open Scope Q_scope.

(** * Measuring: [zip_sizes] never pads when there is one size per measured branch *)

(* all the branches that are measured, in measuring order (what [_layout_branches] collects
   in [branch_nodes] before calling [measure_nodes]) *)
Definition measured (ops : list op) (order : list path) : list branch :=
  flat_map (fun X => branches_at X ops) order.

Lemma zip_sizes_total bs : forall sizes, (length bs <= length sizes)%nat ->
  zip_sizes bs sizes = (combine bs sizes, skipn (length bs) sizes).
Proof.
  induction bs as [|b bs IH]; intros sizes L; [reflexivity|].
  destruct sizes as [|s sizes]; [simpl in L; lia|].
  simpl in *. rewrite (IH sizes) by lia. reflexivity.
Qed.

Lemma combine_app_skipn {A B} (l1 l2 : list A) : forall (s : list B), (length l1 <= length s)%nat ->
  combine (l1 ++ l2) s = combine l1 s ++ combine l2 (skipn (length l1) s).
Proof.
  induction l1 as [|a l1 IH]; intros s L; [reflexivity|].
  destruct s as [|x s]; [simpl in L; lia|]. simpl in *. rewrite (IH s) by lia. reflexivity.
Qed.

(* the measured list, species after species, is the plain [zip] of all branches with the
   sizes — [dict(zip(branch_nodes, measure_nodes(...)))] *)
Lemma measure_all_total ops order : forall sizes, (length (measured ops order) <= length sizes)%nat ->
  flat_map snd (measure_all ops order sizes) = combine (measured ops order) sizes.
Proof.
  unfold measured. induction order as [|X order IH]; intros sizes L; [reflexivity|].
  simpl in *. rewrite app_length in L.
  rewrite (zip_sizes_total (branches_at X ops) sizes) by lia. simpl.
  rewrite IH by (rewrite skipn_length; lia).
  rewrite combine_app_skipn by lia. reflexivity.
Qed.

(* sizes beyond the number of measured branches are never read *)
Lemma zip_sizes_firstn bs : forall n sizes, (length bs <= n)%nat ->
  zip_sizes bs (firstn n sizes) = (fst (zip_sizes bs sizes), firstn (n - length bs) (snd (zip_sizes bs sizes))).
Proof.
  induction bs as [|b bs IH]; intros n sizes L.
  - simpl. now rewrite Nat.sub_0_r.
  - destruct n as [|n]; [simpl in L; lia|]. simpl in L.
    destruct sizes as [|s sizes].
    + rewrite firstn_nil. cbn [zip_sizes]. rewrite zip_nil. simpl. now rewrite firstn_nil.
    + cbn [firstn zip_sizes]. rewrite (IH n sizes) by lia.
      destruct (zip_sizes bs sizes) as [z rest]. reflexivity.
Qed.

Lemma measure_all_firstn ops order : forall n sizes, (length (measured ops order) <= n)%nat ->
  measure_all ops order (firstn n sizes) = measure_all ops order sizes.
Proof.
  unfold measured. induction order as [|X order IH]; intros n sizes L; [reflexivity|].
  simpl in *. rewrite app_length in L.
  rewrite (zip_sizes_firstn (branches_at X ops) n sizes) by lia.
  destruct (zip_sizes (branches_at X ops) sizes) as [z rest]. simpl.
  rewrite IH by lia. reflexivity.
Qed.

Theorem layout_firstn o P S r sizes ops n : all_ops S r = Some ops ->
  (length (measured ops (spost S)) <= n)%nat ->
  layout o P S r (firstn n sizes) = layout o P S r sizes.
Proof. intros AO L. unfold layout. rewrite AO. now rewrite (measure_all_firstn ops (spost S) n sizes L). Qed.

(** * [pfind] finds every species of [S]: the [empty_slay] default of [layout] is never taken *)
Lemma all_species_fst sp ops m : forall lays, all_species sp ops m = Some lays -> map fst lays = map fst m.
Proof.
  induction m as [|[X l] m IH]; intros lays E; simpl in E.
  - inversion E; reflexivity.
  - destruct (run_anchors X ops []) as [fin|]; [|discriminate].
    destruct (sp l _) as [sl|]; [|discriminate].
    destruct (all_species sp ops m) as [rest|]; [|discriminate].
    inversion E; subst. simpl. f_equal. now apply IH.
Qed.

Lemma pfind_in {A} X (l : list (path * A)) : In X (map fst l) -> exists v, pfind X l = Some v.
Proof.
  induction l as [|[k v] l IH]; simpl; [tauto|].
  destruct (path_eqb_spec X k); [eauto|]. intros [H|H]; [congruence|auto].
Qed.

Theorem pfind_no_default sp ops S sizes lays :
  all_species sp ops (measure_all ops (spost S) sizes) = Some lays ->
  forall X, In X (snodes S) -> exists sl, pfind X lays = Some sl.
Proof.
  intros E X HX. apply pfind_in. rewrite (all_species_fst _ _ _ _ E).
  rewrite (proj1 (measure_all_spec ops (spost S) sizes)).
  apply spost_valid. now apply snodes_valid.
Qed.

(* [_layout_subtrees] reads the per-species results at the species of [S] only *)
Lemma sizes_V_ext P lays lays' S : forall X,
  (forall p, In p (snodes S) -> lays (X ++ p) = lays' (X ++ p)) ->
  sizes_V P lays S X = sizes_V P lays' S X.
Proof.
  induction S as [|l IHl r IHr]; intros X E; simpl;
    pose proof (E [] (or_introl eq_refl)) as E0; rewrite app_nil_r in E0; rewrite <- E0.
  - reflexivity.
  -
    rewrite (IHl (X ++ [false])), (IHr (X ++ [true])); [reflexivity| |];
      intros p Hp; rewrite <- !app_assoc; apply E; simpl; right; apply in_app_iff;
      [right|left]; apply in_map_iff; eauto.
Qed.

Lemma sizes_H_ext P lays lays' S : forall X,
  (forall p, In p (snodes S) -> lays (X ++ p) = lays' (X ++ p)) ->
  sizes_H P lays S X = sizes_H P lays' S X.
Proof.
  induction S as [|l IHl r IHr]; intros X E; simpl;
    pose proof (E [] (or_introl eq_refl)) as E0; rewrite app_nil_r in E0; rewrite <- E0.
  - reflexivity.
  -
    rewrite (IHl (X ++ [false])), (IHr (X ++ [true])); [reflexivity| |];
      intros p Hp; rewrite <- !app_assoc; apply E; simpl; right; apply in_app_iff;
      [right|left]; apply in_map_iff; eauto.
Qed.

(* [layout] with an arbitrary value [d] in place of [empty_slay] *)
Definition layout_with (d : slay) (o : orient) (P : params) (S : stree) (r : rtree) (sizes : list size) : option ltree :=
  match all_ops S r with
  | Some ops =>
      let m := measure_all ops (spost S) sizes in
      match all_species (match o with Vertical => species_V P | Horizontal => species_H P end) ops m with
      | Some lays =>
          let look X := match pfind X lays with Some sl => sl | None => d end in
          let it := match o with Vertical => sizes_V P look S [] | Horizontal => sizes_H P look S [] end in
          Some (absolute (match o with Vertical => place_V | Horizontal => place_H end) it
                         (make_from (0, 0) (i_size (iinfo it))))
      | None => None
      end
  | None => None
  end.

Theorem layout_default_irrelevant d o P S r sizes : layout_with d o P S r sizes = layout o P S r sizes.
Proof.
  unfold layout_with, layout. destruct (all_ops S r) as [ops|]; [|reflexivity].
  destruct (all_species _ ops (measure_all ops (spost S) sizes)) as [lays|] eqn:AS; [|reflexivity].
  remember (fun X => match pfind X lays with Some sl => sl | None => d end) as f.
  remember (fun X => match pfind X lays with Some sl => sl | None => empty_slay end) as g.
  assert (forall p, In p (snodes S) -> f ([] ++ p) = g ([] ++ p)) as E.
  { intros p Hp. subst f g. simpl. destruct (pfind_no_default _ ops S sizes lays AS p Hp) as [sl ->]. reflexivity. }
  destruct o.
  - rewrite (sizes_V_ext P f g S [] E). reflexivity.
  - rewrite (sizes_H_ext P f g S [] E). reflexivity.
Qed.

(** * A sufficient condition, on widths only, for "every trunk lies inside its own box"

    [trunk_pos] centres the trunk of an internal species on the gap between its two child
    boxes.  The gap is at least [min_subtree_spacing]; so the trunk stays inside the
    species box as soon as its extent across the growth direction (width when vertical,
    height when horizontal) exceeds [min_subtree_spacing] by at most twice the extent of
    the narrower child box.  (The reviewer's candidate
    [trunk_width <= left_trunk_dist + right_trunk_dist + mss] is NOT sufficient: with an
    empty first child, [left_trunk_dist = 0] and a large [right_trunk_dist] it allows a
    trunk that starts left of its box — the mechanism of F-TRUNK-OVERLAP.) *)
Definition across (o : orient) (r : rect) : Q := match o with Vertical => rw r | Horizontal => rh r end.

Definition narrow_at (o : orient) (P : params) (s : sublayout) (l r : ltree) : Prop :=
  across o (l_trunk s) <= mss P + 2 * Qmin (across o (l_rect (linfo l))) (across o (l_rect (linfo r))).

Fixpoint lnarrow (o : orient) (P : params) (t : ltree) : Prop :=
  match t with
  | LLeaf _ => True
  | LNode s l r => narrow_at o P s l r /\ lnarrow o P l /\ lnarrow o P r
  end.

Definition trunk_in (i : sinfo) : Prop :=
  0 <= rx (i_trunk i) /\ 0 <= ry (i_trunk i) /\
  rx (i_trunk i) + rw (i_trunk i) <= fst (i_size i) /\ ry (i_trunk i) + rh (i_trunk i) <= snd (i_size i).

Fixpoint inarrow (P : params) (t : itree) : Prop :=
  match t with
  | ILeaf _ => True
  | INode i l r => rw (i_trunk i) <= mss P + 2 * Qmin (fst (i_size (iinfo l))) (fst (i_size (iinfo r))) /\
                   inarrow P l /\ inarrow P r
  end.
Fixpoint itin (t : itree) : Prop :=
  match t with ILeaf i => trunk_in i | INode i l r => trunk_in i /\ itin l /\ itin r end.

Lemma node_info_V_tin P tw th fk sl L R : nonneg_params P -> 0 <= th -> 0 <= fk ->
  size_ok (i_size L) -> size_ok (i_size R) ->
  tw <= mss P + 2 * Qmin (fst (i_size L)) (fst (i_size R)) ->
  trunk_in (node_info_V P tw th fk sl L R).
Proof.
  intros [Hp Ho Hm Hl] Hth Hfk [L1 L2] [R1 R2] N. unfold trunk_in, node_info_V. simpl.
  remember (Qmax (tw - (fst (i_size L) - (rx (i_trunk L) + rw (i_trunk L)) + rx (i_trunk R))) (mss P)) as sp.
  remember (Qmax (snd (i_size L)) (snd (i_size R))) as m.
  remember (Qmin (fst (i_size L)) (fst (i_size R))) as mn.
  assert (mss P <= sp) by (subst sp; apply Q.le_max_r).
  assert (snd (i_size L) <= m) by (subst m; apply Q.le_max_l).
  assert (mn <= fst (i_size L)) by (subst mn; apply Q.le_min_l).
  assert (mn <= fst (i_size R)) by (subst mn; apply Q.le_min_r).
  repeat split; qlra.
Qed.

Lemma sizes_V_tin P lays S : nonneg_params P -> (forall X, rects_ok P (lays X)) ->
  forall X, inarrow P (sizes_V P lays S X) -> itin (sizes_V P lays S X).
Proof.
  intros NP RO. induction S as [|l IHl r IHr]; intros X; simpl;
    destruct (trunk_dims_V_nonneg P (lays X) NP (RO X)) as [A [B C]];
    destruct (trunk_dims_V P (lays X)) as [[tw th] fk]; simpl in *.
  - intros _. unfold trunk_in, leaf_info. simpl. repeat split; lra.
  - intros [N [NL NR]].
    destruct (sizes_V_good P lays l NP RO (X ++ [false])) as [SL _].
    destruct (sizes_V_good P lays r NP RO (X ++ [true])) as [SR _].
    split; [|split; auto].
    apply node_info_V_tin; auto.
Qed.

Lemma absolute_tin place t : (forall i R', l_rect (place i R') = R') ->
  (forall i R', l_trunk (place i R') = rshift (i_trunk i) (top_left R')) -> itin t ->
  forall R, rw R = fst (i_size (iinfo t)) -> rh R = snd (i_size (iinfo t)) ->
  forall s, In s (flatten (absolute place t R)) -> rinside (l_trunk s) (l_rect s).
Proof.
  intros HP HT.
  assert (forall i R, trunk_in i -> rw R = fst (i_size i) -> rh R = snd (i_size i) ->
            rinside (l_trunk (place i R)) (l_rect (place i R))) as K.
  { intros i R [T1 [T2 [T3 T4]]] EW EH. rewrite HP, HT. unfold rinside, rshift, top_left. simpl. rewrite EW, EH. lra. }
  induction t as [i|i l IHl r IHr]; intros G R EW EH s; simpl.
  - intros [<-|[]]. apply K; auto.
  - destruct G as [G [GL GR]]. simpl in EW, EH. intros [<-|H]; [apply K; auto|].
    apply in_app_iff in H as [H|H]; [eapply IHl|eapply IHr]; eauto; reflexivity.
Qed.

Lemma absolute_narrow P place t : (forall i R', l_rect (place i R') = R') ->
  (forall i R', l_trunk (place i R') = rshift (i_trunk i) (top_left R')) ->
  forall R, lnarrow Vertical P (absolute place t R) -> inarrow P t.
Proof.
  intros HP HT. induction t as [i|i l IHl r IHr]; intros R; simpl; auto.
  unfold narrow_at. rewrite !linfo_absolute, HT by auto. simpl.
  intros [N [NL NR]]. split; [exact N|]. split; [eapply IHl|eapply IHr]; eauto.
Qed.

Lemma trunks_inside_vertical P S r sizes t : nonneg_params P -> Forall size_ok sizes ->
  layout Vertical P S r sizes = Some t -> lnarrow Vertical P t ->
  forall s, In s (flatten t) -> rinside (l_trunk s) (l_rect s).
Proof.
  intros NP F. unfold layout. destruct (all_ops S r) as [ops|]; [|discriminate].
  destruct (all_species (species_V P) ops (measure_all ops (spost S) sizes)) as [lays|] eqn:AS; [|discriminate].
  intros E; inversion E; subst. clear E.
  remember (fun X => match pfind X lays with Some sl => sl | None => empty_slay end) as look.
  assert (forall X, rects_ok P (look X)) as RO.
  { intros X. subst look. destruct (pfind X lays) as [sl|] eqn:PF; [|apply empty_rects_ok].
    eapply all_species_V_rects; eauto. apply measure_all_ok; auto. }
  intros N. apply absolute_tin; auto.
  apply sizes_V_tin; auto. eapply absolute_narrow; [| |exact N]; auto.
Qed.

Lemma lnarrow_t P t : lnarrow Horizontal P (t_ltree t) <-> lnarrow Vertical P t.
Proof.
  induction t as [s|s l IHl r IHr]; simpl; [tauto|].
  unfold narrow_at. rewrite !linfo_t. simpl. rewrite IHl, IHr. tauto.
Qed.

Lemma lsubtrees_narrow o P t :
  (forall s l r, In (LNode s l r) (lsubtrees t) -> narrow_at o P s l r) -> lnarrow o P t.
Proof.
  induction t as [s|s l IHl r IHr]; simpl; auto. intros H. split; [apply H; now left|].
  split; [apply IHl|apply IHr]; intros s0 l0 r0 H0; apply H; right; apply in_app_iff; auto.
Qed.

Theorem trunks_inside_narrow o P S r sizes t : nonneg_params P -> Forall size_ok sizes ->
  layout o P S r sizes = Some t ->
  (forall s l r', In (LNode s l r') (lsubtrees t) -> narrow_at o P s l r') ->
  forall s, In s (flatten t) -> rinside (l_trunk s) (l_rect s).
Proof.
  intros NP F E H. apply lsubtrees_narrow in H. revert E H. destruct o.
  - intros E H. eapply trunks_inside_vertical; eauto.
  - rewrite mirror. destruct (layout Vertical P S r (map tp sizes)) as [t0|] eqn:E; [|discriminate].
    intros K; inversion K; subst. intros H s Hs. apply lnarrow_t in H.
    rewrite flatten_t in Hs. apply in_map_iff in Hs as [s0 [<- Hs0]].
    simpl. apply rinside_tr.
    exact (trunks_inside_vertical P S r (map tp sizes) t0 NP (size_ok_tp _ F) E H s0 Hs0).
Qed.

Theorem trunks_disjoint_narrow o P S r sizes t : nonneg_params P -> Forall size_ok sizes ->
  layout o P S r sizes = Some t ->
  (forall s l r', In (LNode s l r') (lsubtrees t) -> narrow_at o P s l r') ->
  ForallOrdPairs (fun a b => rdisjoint (l_trunk a) (l_trunk b)) (flatten t).
Proof.
  intros NP F E H. eapply trunks_disjoint_partial; eauto. eapply trunks_inside_narrow; eauto.
Qed.

(** * Concrete examples, evaluated by the kernel *)
(* species ((A,B)M,C)P; object (((a1,b1)s,a2)d,c1)t with t -> P (speciation), d -> M
   (duplication), s -> M (speciation); the copy a2 is lost in B, so the INTERNAL species M
   carries a speciation, a full loss and a duplication branch *)
Definition ex_S : stree := SNode (SNode SLeaf SLeaf) SLeaf.
Definition ex_O : otree :=
  ONode (ONode (ONode (OLeaf [false; false] []) (OLeaf [false; true] [])) (OLeaf [false; false] [])) (OLeaf [true] []).
Definition ex_r : rtree :=
  RNode [] (RNode [false] (RNode [false] (RLeaf [false; false]) (RLeaf [false; true])) (RLeaf [false; false])) (RLeaf [true]).
(* eight measured boxes (one per branch, in measuring order), none of them square *)
Definition ex_sizes : list size := [(12, 7); (9, 5); (3, 2); (10, 6); (8, 4); (5, 3); (6, 5); (11, 8)].
Definition ex_layout : ltree :=
  Eval vm_compute in match layout Vertical default_params ex_S ex_r ex_sizes with
                     | Some t => t | None => LLeaf dummy_sub end.
(* the vertical layout of the size-swapped input *)
Definition ex_layout_swapped : ltree :=
  Eval vm_compute in match layout Vertical default_params ex_S ex_r (map tp ex_sizes) with
                     | Some t => t | None => LLeaf dummy_sub end.

Lemma ex_nonneg : nonneg_params default_params.
Proof. constructor; vm_compute; discriminate. Qed.
Lemma ex_sizes_ok : Forall size_ok ex_sizes.
Proof. repeat constructor; vm_compute; discriminate. Qed.
Lemma ex_layout_eq : layout Vertical default_params ex_S ex_r ex_sizes = Some ex_layout.
Proof. vm_compute; reflexivity. Qed.

Lemma ex_trunks_inside : forall s, In s (flatten ex_layout) -> rinside (l_trunk s) (l_rect s).
Proof.
  apply Forall_forall. repeat (apply Forall_cons || apply Forall_nil); repeat split; vm_compute; discriminate.
Qed.

(* the hypotheses of [trunks_disjoint_partial] hold on a valid reconciliation whose internal
   species M (second in pre-order) carries a speciation, a loss and a duplication; its
   conclusion follows by the theorem *)
Example trunks_example :
  valid_rec ex_S ex_O ex_r /\
  nonneg_params default_params /\ Forall size_ok ex_sizes /\
  (exists ops, all_ops ex_S ex_r = Some ops /\ length (measured ops (spost ex_S)) = length ex_sizes) /\
  exists lay, layout Vertical default_params ex_S ex_r ex_sizes = Some lay /\
  (exists p m a b c, lay = LNode p (LNode m a b) c /\ map d_kind (l_branches m) = [KSpe; KLoss; KDup]) /\
  (forall s, In s (flatten lay) -> rinside (l_trunk s) (l_rect s)) /\
  (forall s l r, In (LNode s l r) (lsubtrees lay) -> narrow_at Vertical default_params s l r) /\
  ForallOrdPairs (fun a b => rdisjoint (l_trunk a) (l_trunk b)) (flatten lay).
Proof.
  split; [repeat (constructor; try reflexivity; try (vm_compute; discriminate))|].
  split; [exact ex_nonneg|]. split; [exact ex_sizes_ok|].
  split; [eexists; split; [vm_compute; reflexivity|reflexivity]|].
  exists ex_layout. split; [exact ex_layout_eq|].
  split; [do 5 eexists; split; reflexivity|].
  split; [exact ex_trunks_inside|].
  split.
  - intros s l r H. simpl in H.
    repeat (destruct H as [H|H]; [try discriminate H; inversion H; subst; vm_compute; discriminate|]).
    destruct H.
  - exact (trunks_disjoint_partial Vertical default_params ex_S ex_r ex_sizes ex_layout
             ex_nonneg ex_sizes_ok ex_layout_eq ex_trunks_inside).
Qed.

(* the mirror law on the same input: both orientations are defined, and the horizontal
   layout is the transpose of the vertical layout of the size-swapped input (each side
   evaluated separately by the kernel); the instance is not degenerate: swapping changes
   the sizes and transposing changes the layout *)
Example mirror_example :
  exists tV, layout Vertical default_params ex_S ex_r (map tp ex_sizes) = Some tV /\
  layout Horizontal default_params ex_S ex_r ex_sizes = Some (t_ltree tV) /\
  map tp ex_sizes <> ex_sizes /\ t_ltree tV <> tV /\
  ~ rw (l_rect (linfo tV)) == rh (l_rect (linfo tV)).
Proof.
  exists ex_layout_swapped.
  split; [vm_compute; reflexivity|]. split; [vm_compute; reflexivity|].
  split; [vm_compute; discriminate|]. split.
  - intros H. apply (f_equal (fun t => rw (l_rect (linfo t)))) in H. vm_compute in H. discriminate H.
  - vm_compute. discriminate.
Qed.
