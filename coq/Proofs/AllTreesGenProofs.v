(** [all_trees_from_triples] (AllTrees) as generated in [Gen/BuildGen.v] from
    [src/superrec2/utils/trees.py] by [translator/build_gen.py] -- the local function
    [_all_trees_from_triples] as [gen_all_trees_aux] (a [Fixpoint] on fuel [S (length leaves)]), the
    function itself as [gen_all_trees_from_triples] -- returns, whenever the hand-written model
    [Model/Triples.v] ([all_trees]) returns a list of trees, exactly that list (same trees, same
    order), for EVERY iteration order [ord] of the set inside [DisjointSet.binary].

    Representation: as in Proofs/BuildGenProofs.v (names of any type [A] with an encoding [enc] under
    which [eqb] is equality; built trees [B.Tree A], the model's trees embedded by [emb], names
    encoded by [tmap]); [left_tree.copy()] is the value [left_tree]; the model's order parameter is
    [ord_nat ord] (Proofs/DsuBinaryGenProofs.v).

    Why "whenever the model returns a list" and not an equality of results: (1) the fuel conventions
    differ as for [tree_from_triples]; (2) on an error the generated function follows Python's
    evaluation order ([groups_leaves[0]], [groups_triples[0]], first recursive call,
    [groups_leaves[1]], ..) while the model reads both groups before the first recursive call, so
    that WHICH error is reported may differ on states [binary] cannot produce.  [all_trees_sound_nodup]
    (Proofs/TriplesProofs.v) shows the model returns a list for all duplicate-free leaves, triples
    over them and set orders ([gen_all_trees_from_triples_sound]). *)
From Coq Require Import List Bool Arith ZArith NArith Lia Permutation.
From SR Require Import Model.DisjointSet Model.Triples Proofs.DisjointSetProofs Proofs.DsuGenProofs
  Proofs.DsuBinaryGenProofs Proofs.BuildGenProofs.
From SR Require Proofs.TriplesProofs.
From SR Require Gen.DsuGen Gen.BuildGen.
Import ListNotations.
Module B := SR.Gen.BuildGen.
Module G := SR.Gen.DsuGen.

Notation nats := (map N.to_nat).

Section Tie.
Context {A : Type} (eqb : A -> A -> bool) (enc : A -> nat) (ord : list N -> list N).
Hypothesis Henc : forall a b, eqb a b = (enc a =? enc b).

Notation encs := (map enc).
Notation enct := (BuildGenProofs.enct enc).
Notation tmap := (BuildGenProofs.tmap enc).

(* ------------------------------------------------------------------ *)
(** * the loop over the triples (a second copy of the same loop) *)

Lemma for1_all_eq leaves : forall ts s,
  match B.gen_all_trees_aux_for1 eqb (B.enum_dict9 eqb [] 0%N leaves) ts s with
  | B.Next s' => unite_triples (encs leaves) (map enct ts) (st s) = Ok (st s')
  | B.Ret _ => False
  | B.Fail e => unite_triples (encs leaves) (map enct ts) (st s) = Err (cerrB e)
  end.
Proof.
  induction ts as [|[[a b] c] ts IH]; intros s; [reflexivity|].
  cbn [B.gen_all_trees_aux_for1 map BuildGenProofs.enct unite_triples]. unfold lookup.
  rewrite !(leaf_index_get eqb enc Henc).
  destruct (index_of (enc a) (encs leaves)) as [ia|]; cbn [option_map bind]; [|reflexivity].
  destruct (index_of (enc b) (encs leaves)) as [ib|]; cbn [option_map bind]; [|reflexivity].
  pose proof (unite_cases s (N.of_nat ia) (N.of_nat ib)) as U. rewrite !Nat2N.id in U.
  destruct (G.gen_dsu_unite s (N.of_nat ia) (N.of_nat ib)) as [[s1 r]|e]; rewrite U; cbn [B.dsu_res bind].
  - apply IH.
  - now rewrite cerrB_dsu.
Qed.

(* ------------------------------------------------------------------ *)
(** * the loop over product(left trees, right trees) *)

Definition gprod (ls rs : list (B.Tree A)) : list (B.Tree A) :=
  flat_map (fun l => map (fun r => B.Tree_node None [l; r]) rs) ls.

Lemma for3_in_eq (l : B.Tree A) : forall rs results,
  B.gen_all_trees_aux_for3_in l rs results = B.Next (results ++ map (fun r => B.Tree_node None [l; r]) rs).
Proof.
  induction rs as [|r rs IH]; intros results; cbn [B.gen_all_trees_aux_for3_in map].
  - now rewrite app_nil_r.
  - cbv zeta. rewrite IH. cbn [B.Tree_add_child app]. now rewrite <- app_assoc.
Qed.

Lemma for3_eq (rs : list (B.Tree A)) : forall ls results,
  B.gen_all_trees_aux_for3 ls rs results = B.Next (results ++ gprod ls rs).
Proof.
  induction ls as [|l ls IH]; intros results; cbn [B.gen_all_trees_aux_for3 gprod flat_map].
  - now rewrite app_nil_r.
  - rewrite for3_in_eq, IH. now rewrite <- app_assoc.
Qed.

Lemma gprod_emb : forall ls ls' rs rs', map tmap ls = map emb ls' -> map tmap rs = map emb rs' ->
  map tmap (gprod ls rs) = map emb (product_trees ls' rs').
Proof.
  induction ls as [|l ls IH]; intros [|l' ls'] rs rs' Hl Hr; cbn in Hl; try discriminate; [reflexivity|].
  injection Hl as Hl Hls. unfold gprod, product_trees. cbn [flat_map]. rewrite !map_app. f_equal; [|apply IH; assumption].
  clear IH Hls. revert rs' Hr. induction rs as [|r rs IHr]; intros [|r' rs'] Hr; cbn in Hr; try discriminate; [reflexivity|].
  injection Hr as Hr Hrs. cbn [map BuildGenProofs.tmap emb option_map]. rewrite Hl, Hr. f_equal. apply IHr. exact Hrs.
Qed.

(* ------------------------------------------------------------------ *)
(** * groups_leaves *)

Definition go_m (leaves : list nat) :=
  fix go (gs : list (list nat)) : res (list (list nat)) :=
    match gs with
    | [] => Ok []
    | g :: r => gl <- get_all leaves g ;; x <- go r ;; Ok (gl :: x)
    end.

Lemma go_eq (xs : list A) : forall gs,
  go_m (encs xs) (map nats gs) =
    match B.list_gets_all9 xs gs with Some ls => Ok (map encs ls) | None => Err IndexError end.
Proof.
  induction gs as [|g gs IH]; [reflexivity|]. cbn [map go_m B.list_gets_all9]. rewrite (gets_eq enc xs g).
  destruct (B.list_gets9 xs g) as [l|]; cbn [bind]; [|reflexivity].
  fold (go_m (encs xs)). rewrite IH. destruct (B.list_gets_all9 xs gs); reflexivity.
Qed.

Lemma all_bins_cons rec leaves triples b rest :
  all_bins rec leaves triples (b :: rest) =
    (' (_, gs) <- to_list b ;;
     gls <- go_m leaves gs ;;
     gl0 <- get gls 0 ;;
     gl1 <- get gls 1 ;;
     ls <- rec gl0 (filter (inside gl0) triples) ;;
     rs <- rec gl1 (filter (inside gl1) triples) ;;
     more <- all_bins rec leaves triples rest ;;
     Ok (product_trees ls rs ++ more)).
Proof. reflexivity. Qed.

(* ------------------------------------------------------------------ *)
(** * the loop over the two-block partitions (the local [fix] of the generated function) *)

Definition loopA (rec : list A -> list (A * A * A) -> B.res (list (B.Tree A))) (leaves : list A)
    (triples : list (A * A * A)) :=
  fix gen_all_trees_aux_for2 (it' : list G.dsu_state) (results : list (B.Tree A)) {struct it'}
      : B.flow (list (B.Tree A)) (list (B.Tree A)) :=
    match it' with
    | nil => B.Next results
    | cons obj9_5 it'' =>
        let bin_partition := obj9_5 in
        match B.dsu_res (G.gen_dsu_to_list bin_partition) with
        | B.Err e' => B.Fail e'
        | B.Ok (bin_partition, groups) =>
            match B.list_gets_all9 leaves groups with
            | None => B.Fail B.IndexError
            | Some groups_leaves =>
                let groups_triples :=
                  map (fun group_leaves : list A =>
                         filter (fun triple : A * A * A =>
                                   let '(c'1, c'2, c'3) := triple in
                                   andb (andb (existsb (fun y' => eqb y' c'1) group_leaves)
                                              (existsb (fun y' => eqb y' c'2) group_leaves))
                                        (existsb (fun y' => eqb y' c'3) group_leaves)) triples) groups_leaves in
                match nth_error groups_leaves (N.to_nat 0%N) with
                | None => B.Fail B.IndexError
                | Some t'4 =>
                    match nth_error groups_triples (N.to_nat 0%N) with
                    | None => B.Fail B.IndexError
                    | Some t'5 =>
                        match rec t'4 t'5 with
                        | B.Err e' => B.Fail e'
                        | B.Ok t'6 =>
                            let prod9_2 := t'6 in
                            match nth_error groups_leaves (N.to_nat 1%N) with
                            | None => B.Fail B.IndexError
                            | Some t'7 =>
                                match nth_error groups_triples (N.to_nat 1%N) with
                                | None => B.Fail B.IndexError
                                | Some t'8 =>
                                    match rec t'7 t'8 with
                                    | B.Err e' => B.Fail e'
                                    | B.Ok t'9 =>
                                        let prod9_3 := t'9 in
                                        match B.gen_all_trees_aux_for3 prod9_2 prod9_3 results with
                                        | B.Next results => gen_all_trees_aux_for2 it'' results
                                        | B.Ret r' => B.Ret r'
                                        | B.Fail e' => B.Fail e'
                                        end
                                    end
                                end
                            end
                        end
                    end
                end
            end
        end
    end.

Lemma loopA_ok rec_g rec_m leaves triples :
  (forall l ts r, rec_m (encs l) (map enct ts) = Ok r ->
                  exists r', rec_g l ts = B.Ok r' /\ map tmap r' = map emb r) ->
  forall bins results ts,
    all_bins rec_m (encs leaves) (map enct triples) (map st bins) = Ok ts ->
    exists res', loopA rec_g leaves triples bins results = B.Next res' /\
                 map tmap res' = map tmap results ++ map emb ts.
Proof.
  intros Hrec. induction bins as [|b bins IH]; intros results ts H.
  - cbn in H. injection H as <-. exists results. split; [reflexivity|]. now rewrite app_nil_r.
  - cbn [map] in H. rewrite all_bins_cons in H. cbn [loopA]. cbv zeta.
    pose proof (gen_dsu_to_list_eq b) as TL.
    destruct (G.gen_dsu_to_list b) as [[b' gs]|e]; cbn [cres] in TL; rewrite <- TL in H;
      cbn [bind B.dsu_res] in H; [|discriminate].
    unfold cpair in H. cbn [fst snd] in H. cbn [B.dsu_res].
    rewrite go_eq in H. destruct (B.list_gets_all9 leaves gs) as [gls|]; cbn [bind] in H; [|discriminate].
    unfold get in H. rewrite !nth_error_map in H. change (N.to_nat 0) with 0. change (N.to_nat 1) with 1.
    rewrite !nth_error_map.
    destruct (nth_error gls 0) as [gl0|]; cbn [option_map bind] in H; [|discriminate].
    destruct (nth_error gls 1) as [gl1|]; cbn [option_map bind] in H; [|discriminate].
    cbn [option_map].
    rewrite <- !(filter_eq eqb enc Henc) in H.
    match type of H with (ls <- rec_m ?a ?b ;; _) = _ => destruct (rec_m a b) as [ls|] eqn:EL end;
      cbn [bind] in H; [|discriminate].
    destruct (Hrec _ _ _ EL) as (ls' & RL & ML). rewrite RL.
    match type of H with (rs <- rec_m ?a ?b ;; _) = _ => destruct (rec_m a b) as [rs|] eqn:ER end;
      cbn [bind] in H; [|discriminate].
    destruct (Hrec _ _ _ ER) as (rs' & RR & MR). rewrite RR.
    destruct (all_bins rec_m (encs leaves) (map enct triples) (map st bins)) as [more|] eqn:EM;
      cbn [bind] in H; [|discriminate].
    injection H as <-. rewrite for3_eq.
    destruct (IH (results ++ gprod ls' rs') more eq_refl) as (res' & L & M).
    exists res'. split; [exact L|]. rewrite M, !map_app, (gprod_emb ls' ls rs' rs ML MR). now rewrite app_assoc.
Qed.

(* ------------------------------------------------------------------ *)
(** * _all_trees_from_triples *)

Lemma all_rec_ok : forall f leaves triples ts,
  all_trees_aux (ord_nat ord) f (encs leaves) (map enct triples) = Ok ts ->
  exists r', B.gen_all_trees_aux_rec eqb ord (S f) leaves triples = B.Ok r' /\ map tmap r' = map emb ts.
Proof.
  induction f as [|f IH]; intros leaves triples ts H;
    (destruct leaves as [|a [|b [|c rest]]];
     [cbn in H; injection H as <-; eexists; split; reflexivity ..|]).
  - discriminate.
  - remember (a :: b :: c :: rest) as leaves eqn:EL.
    assert (all_trees_aux (ord_nat ord) (S f) (encs leaves) (map enct triples) =
            (d <- unite_triples (encs leaves) (map enct triples) (make (length (encs leaves))) ;;
             ' (_, bins) <- binary (ord_nat ord) d ;;
             all_bins (all_trees_aux (ord_nat ord) f) (encs leaves) (map enct triples) bins)) as EB
      by (subst leaves; reflexivity).
    rewrite EB in H. clear EB.
    cbn [B.gen_all_trees_aux_rec]. cbv zeta beta.
    replace (B.is_empty leaves) with false by (subst leaves; reflexivity). cbn [negb].
    rewrite ?(N.eqb_sym 1%N), ?(N.eqb_sym 2%N).
    rewrite !(fun k Hk => eq_trans (f_equal (fun l => N.eqb (N.of_nat (length l)) k) EL) (len3 a b c rest k Hk))
      by (auto).
    clear a b c rest EL.
    unfold G.gen_dsu_init. cbn [B.dsu_res].
    set (s0 := G.mk_dsu _ _ _).
    assert (st s0 = make (length (encs leaves))) as Es0.
    { unfold s0, st, make. cbn [G.dsu_parent G.dsu_rank G.dsu_groups].
      rewrite nats_of_nats, nats_repeat, Nat2N.id, map_length, nat_N_Z. reflexivity. }
    rewrite <- Es0 in H.
    pose proof (for1_all_eq leaves triples s0) as F1.
    destruct (B.gen_all_trees_aux_for1 eqb (B.enum_dict9 eqb [] 0%N leaves) triples s0) as [s1|r|e];
      [|contradiction|rewrite F1 in H; discriminate].
    rewrite F1 in H. cbn [bind] in H.
    pose proof (gen_dsu_binary_eq ord s1) as BE.
    destruct (G.gen_dsu_binary ord s1) as [[s2 bins]|e]; cbn [cres] in BE; rewrite <- BE in H;
      cbn [bind B.dsu_res] in H; [|discriminate].
    unfold cpair in H. cbn [fst snd] in H. cbn [B.dsu_res].
    destruct (loopA_ok (B.gen_all_trees_aux_rec eqb ord (S f)) (all_trees_aux (ord_nat ord) f) leaves triples IH
                bins [] ts H) as (res' & L & M).
    exists res'. split; [|exact M].
    unfold loopA in L.
    match goal with
    | |- match ?X with B.Next _ => _ | B.Ret _ => _ | B.Fail _ => _ end = _ =>
        match type of L with ?Y = _ => change X with Y end
    end.
    rewrite L. reflexivity.
Qed.

(* ------------------------------------------------------------------ *)
(** * all_trees_from_triples *)

Theorem gen_all_trees_from_triples_ok (leaves : list A) (triples : list (A * A * A)) (ts : list tree) :
  all_trees (ord_nat ord) (encs leaves) (map enct triples) = Ok ts ->
  exists r', B.gen_all_trees_from_triples eqb ord leaves triples = B.Ok r' /\ map tmap r' = map emb ts.
Proof.
  unfold all_trees. intros H.
  destruct (tree_from_triples (encs leaves) (map enct triples)) as [o|e] eqn:ET; cbn [bind] in H; [|discriminate].
  pose proof (gen_tree_from_triples_eq eqb enc Henc leaves triples) as E. rewrite ET in E.
  specialize (E ltac:(discriminate)). unfold B.gen_all_trees_from_triples.
  destruct (B.gen_tree_from_triples eqb leaves triples) as [o'|e']; cbn in E; [|discriminate].
  injection E as E. destruct o as [t|], o' as [t'|]; cbn in E; try discriminate.
  - rewrite map_length in H. destruct (all_rec_ok _ _ _ _ H) as (r' & R & M).
    unfold B.gen_all_trees_aux. rewrite R. exists r'. split; [reflexivity|exact M].
  - injection H as <-. exists []. split; reflexivity.
Qed.

(* the hypothesis holds for all duplicate-free leaves, proper triples over them and set orders:
   the generated function then lists exactly the binary trees displaying every triple, each once *)
Corollary gen_all_trees_from_triples_sound (leaves : list A) (triples : list (A * A * A)) :
  set_orderN ord -> NoDup (encs leaves) ->
  (forall tr, In tr (map enct triples) -> TriplesProofs.proper (encs leaves) tr) ->
  exists r' ts, B.gen_all_trees_from_triples eqb ord leaves triples = B.Ok r' /\ map tmap r' = map emb ts /\
    all_trees (ord_nat ord) (encs leaves) (map enct triples) = Ok ts /\
    Forall (fun t => TriplesProofs.bin t /\ Permutation (leaves_of t) (encs leaves) /\
                     forall tr, In tr (map enct triples) -> TriplesProofs.displays t tr) ts /\
    TriplesProofs.NoDupBy TriplesProofs.same_clades ts.
Proof.
  intros SO ND PR.
  destruct (TriplesProofs.all_trees_sound_nodup (ord_nat ord) (encs leaves) (map enct triples)
              (set_order_nat ord SO) ND PR) as (ts & E & F & N).
  destruct (gen_all_trees_from_triples_ok leaves triples ts E) as (r' & R & M).
  exists r', ts. repeat split; assumption.
Qed.

End Tie.

(* the hypotheses are satisfiable and the generated code runs: four leaves, the triple 01|2: the
   five binary trees displaying it, in the order of the implementation *)
Example gen_all_trees_from_triples_example :
  let leaves := [0; 1; 2; 3] in
  let triples := [(0, 1, 2)] in
  NoDup leaves /\ (forall tr, In tr triples -> TriplesProofs.proper leaves tr) /\ set_orderN sorted_distinctN /\
  exists ts, all_trees (ord_nat sorted_distinctN) leaves triples = Ok ts /\
    B.gen_all_trees_from_triples Nat.eqb sorted_distinctN leaves triples = B.Ok (map emb ts) /\ length ts = 5.
Proof.
  cbv zeta. split; [repeat constructor; cbn; intuition lia|]. split.
  - intros tr [<-|[]]; cbn; repeat split; try lia; auto.
  - split; [exact sorted_distinctN_order|]. eexists. split; [vm_compute; reflexivity|].
    split; vm_compute; reflexivity.
Qed.

Print Assumptions gen_all_trees_from_triples_ok.
Print Assumptions gen_all_trees_from_triples_sound.
Print Assumptions gen_all_trees_from_triples_example.
