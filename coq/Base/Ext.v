(** Extended integers: the values of the [infinity] package used by the code
    ([inf], [-inf], ints).  [inf + n = inf]; [inf + -inf] never occurs in the
    modelled code (costs are non-negative) and is given the value [PInf]. *)
From Coq Require Import List Bool ZArith Lia.
Import ListNotations.
Local Open Scope Z_scope.

Inductive ext := NInf | Fin (z : Z) | PInf.

Definition ext_ltb (a b : ext) : bool :=
  match a, b with
  | NInf, NInf => false | NInf, _ => true
  | Fin _, NInf => false | Fin x, Fin y => x <? y | Fin _, PInf => true
  | PInf, _ => false
  end.
Definition ext_eqb (a b : ext) : bool :=
  match a, b with
  | NInf, NInf => true | PInf, PInf => true | Fin x, Fin y => x =? y | _, _ => false
  end.
Definition ext_leb (a b : ext) : bool := negb (ext_ltb b a).

Definition ext_add (a b : ext) : ext :=
  match a, b with
  | PInf, _ | _, PInf => PInf
  | NInf, _ | _, NInf => NInf
  | Fin x, Fin y => Fin (x + y)
  end.
Definition ext_min (a b : ext) : ext := if ext_ltb b a then b else a.
Definition ext_is_inf (a : ext) : bool := match a with Fin _ => false | _ => true end.

Lemma ext_eqb_eq a b : ext_eqb a b = true <-> a = b.
Proof. destruct a, b; simpl; try (split; congruence). rewrite Z.eqb_eq. split; congruence. Qed.
Lemma ext_eqb_refl a : ext_eqb a a = true.
Proof. apply ext_eqb_eq; reflexivity. Qed.
Lemma ext_ltb_irrefl a : ext_ltb a a = false.
Proof. destruct a; simpl; auto. apply Z.ltb_irrefl. Qed.
Lemma ext_ltb_trans a b c : ext_ltb a b = true -> ext_ltb b c = true -> ext_ltb a c = true.
Proof. destruct a, b, c; simpl; try congruence; rewrite !Z.ltb_lt; lia. Qed.
Lemma ext_tricho a b : ext_ltb a b = true \/ a = b \/ ext_ltb b a = true.
Proof.
  destruct a, b; simpl; auto.
  destruct (Z.lt_trichotomy z z0) as [H|[H|H]]; [left|right;left|right;right]; try (apply Z.ltb_lt; lia). congruence.
Qed.
Lemma ext_ltb_asym a b : ext_ltb a b = true -> ext_ltb b a = false.
Proof. destruct a, b; simpl; auto; try congruence. rewrite Z.ltb_lt, Z.ltb_ge; lia. Qed.
