From Coq Require Import List Bool Arith ZArith Lia.
Import ListNotations.

Definition path := list bool.

Fixpoint is_prefix (a b : path) : bool :=
  match a, b with
  | [], _ => true
  | x :: a', y :: b' => Bool.eqb x y && is_prefix a' b'
  | _ :: _, [] => false
  end.

Fixpoint lcp (a b : path) : path :=
  match a, b with
  | x :: a', y :: b' => if Bool.eqb x y then x :: lcp a' b' else []
  | _, _ => []
  end.

Fixpoint path_eqb (a b : path) : bool :=
  match a, b with
  | [], [] => true
  | x :: a', y :: b' => Bool.eqb x y && path_eqb a' b'
  | _, _ => false
  end.

Lemma path_eqb_spec a b : reflect (a = b) (path_eqb a b).
Proof.
  revert b; induction a as [|x a IH]; intros [|y b]; simpl; try (constructor; congruence).
  destruct (Bool.eqb x y) eqn:E; simpl.
  - apply eqb_prop in E; subst. destruct (IH b); constructor; congruence.
  - constructor. intros H; inversion H; subst. rewrite eqb_reflx in E; discriminate.
Qed.

Lemma is_prefix_spec a b : is_prefix a b = true <-> exists c, b = a ++ c.
Proof.
  revert b; induction a as [|x a IH]; intros b; simpl.
  - split; eauto.
  - destruct b as [|y b].
    + split; [discriminate|intros [c H]; discriminate].
    + rewrite andb_true_iff, IH. split.
      * intros [E [c ->]]. apply eqb_prop in E; subst; eauto.
      * intros [c H]; inversion H; subst. split; [apply eqb_reflx|eauto].
Qed.

Lemma is_prefix_refl a : is_prefix a a = true.
Proof. apply is_prefix_spec; exists []; now rewrite app_nil_r. Qed.

Lemma is_prefix_trans a b c : is_prefix a b = true -> is_prefix b c = true -> is_prefix a c = true.
Proof.
  rewrite !is_prefix_spec; intros [x ->] [y ->]; exists (x ++ y); now rewrite app_assoc.
Qed.

Lemma is_prefix_length a b : is_prefix a b = true -> length a <= length b.
Proof. rewrite is_prefix_spec; intros [c ->]; rewrite app_length; lia. Qed.

Lemma is_prefix_antisym a b : is_prefix a b = true -> is_prefix b a = true -> a = b.
Proof.
  rewrite !is_prefix_spec; intros [x ->] [y H].
  assert (x ++ y = []) as E.
  { rewrite <- app_assoc in H. rewrite <- (app_nil_r a) in H at 1. now apply app_inv_head in H. }
  apply app_eq_nil in E as [-> _]; now rewrite app_nil_r.
Qed.

Lemma lcp_prefix_l a b : is_prefix (lcp a b) a = true.
Proof.
  revert b; induction a as [|x a IH]; intros [|y b]; simpl; auto.
  destruct (Bool.eqb x y) eqn:E; simpl; auto. now rewrite eqb_reflx, IH.
Qed.



Lemma eqb_sym x y : Bool.eqb x y = Bool.eqb y x.
Proof. destruct x, y; reflexivity. Qed.

Lemma lcp_comm a b : lcp a b = lcp b a.
Proof.
  revert b; induction a as [|x a IH]; intros [|y b]; simpl; auto.
  rewrite (eqb_sym y x). destruct (Bool.eqb x y) eqn:E; auto.
  apply eqb_prop in E; subst; now rewrite IH.
Qed.

Lemma lcp_prefix_r a b : is_prefix (lcp a b) b = true.
Proof. rewrite lcp_comm; apply lcp_prefix_l. Qed.

Lemma lcp_greatest c a b : is_prefix c a = true -> is_prefix c b = true -> is_prefix c (lcp a b) = true.
Proof.
  revert a b; induction c as [|z c IH]; intros a b; simpl; auto.
  destruct a as [|x a]; [discriminate|]. destruct b as [|y b]; [intros _; discriminate|].
  rewrite !andb_true_iff; intros [E1 H1] [E2 H2].
  apply eqb_prop in E1, E2; subst. simpl. rewrite eqb_reflx; simpl. rewrite eqb_reflx; simpl. auto.
Qed.

(* two prefixes of the same path are comparable *)
Lemma prefixes_comparable a b c : is_prefix a c = true -> is_prefix b c = true ->
  is_prefix a b = true \/ is_prefix b a = true.
Proof.
  revert b c; induction a as [|x a IH]; intros b c; simpl; auto.
  destruct c as [|z c]; [discriminate|]. destruct b as [|y b]; simpl; [auto|].
  rewrite !andb_true_iff; intros [E1 H1] [E2 H2].
  apply eqb_prop in E1, E2; subst. rewrite !eqb_reflx; simpl. destruct (IH b c H1 H2); [left|right]; auto.
Qed.

Lemma lcp_of_prefix a b : is_prefix a b = true -> lcp a b = a.
Proof.
  revert b; induction a as [|x a IH]; intros [|y b]; simpl; auto; try discriminate.
  rewrite andb_true_iff; intros [E H]. rewrite E. now rewrite IH.
Qed.

(* if a' extends a and b' extends b and a,b are incomparable then lcp a' b' = lcp a b *)
Lemma lcp_extend a b a' b' :
  is_prefix a a' = true -> is_prefix b b' = true ->
  is_prefix a b = false -> is_prefix b a = false ->
  lcp a' b' = lcp a b.
Proof.
  revert b a' b'; induction a as [|x a IH]; intros b a' b'; simpl; [discriminate|].
  destruct a' as [|x' a']; [discriminate|]. destruct b as [|y b]; [intros; discriminate|].
  destruct b' as [|y' b']; [intros _ H; discriminate|]. simpl.
  rewrite !andb_true_iff. intros [E1 H1] [E2 H2]. apply eqb_prop in E1, E2; subst.
  rewrite (eqb_sym y' x'). destruct (Bool.eqb x' y') eqn:E; simpl; auto.
  intros N1 N2. f_equal. apply IH; auto.
Qed.
