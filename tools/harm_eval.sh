#!/bin/bash
# tools/harm_eval.sh <PID> <patch> <check.py> [props...]  -- a property-PRESERVING change: our checks must not give a concrete VIOLATION
PID=$1; PATCH=$2; CHK=$3; shift 3; PROPS=${@:-$PID}
WT=/tmp/wt_harm_$$
git -C /repo worktree add -q $WT HEAD || exit 2
trap "git -C /repo worktree remove --force $WT" EXIT
(cd $WT && git apply $PATCH) || { echo "patch does not apply"; exit 2; }
echo "== test suite with patch"; (cd $WT && PYTHONPATH=$WT/src timeout 900 /venv/bin/python -m pytest -q -p no:cacheprovider tests 2>&1 | tail -1)
echo "== author's self-check with patch"; (cd $WT && PYTHONPATH=$WT/src TQDM_DISABLE=1 timeout 1200 /venv/bin/python $CHK >/tmp/harm_chk_$$.log 2>&1; echo "exit=$?"; tail -2 /tmp/harm_chk_$$.log | cut -c1-200)
for p in $PROPS; do echo "== check $p"; VERIF_REPO=$WT ${VERIF_DIR:-/verif}/check $p 2>&1 | grep -v "^KNOWN" | grep "VIOLATION\|^\[C\|broken machinery\|Traceback" | head -5; done
rm -f /tmp/harm_chk_$$.log
