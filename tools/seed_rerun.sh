#!/bin/bash
# tools/seed_rerun.sh <scratch copy of /verif> <log> <seed-id>...  -- re-run stored seeded changes against the machinery as it is now
# (each in its own scratch worktree of /repo; the check runs in the scratch copy of /verif so that /verif's Gen files and evidence stay untouched)
VE=$1; LOG=$2; shift 2
for sd in "$@"; do
  P=${sd%%-*}
  case $sd in C04-3B|C07-9A) P=C12;; esac
  WT=/tmp/wt_rr_$$
  git -C /repo worktree add -q $WT HEAD || continue
  if (cd $WT && git apply /verif/seeded/$sd/patch.diff); then
    out=$(VERIF_REPO=$WT $VE/check $P 2>&1 | grep -v "^KNOWN")
    conc=$(echo "$out" | grep "^VIOLATION" | grep -vc "no-failing-input-found")
    nof=$(echo "$out" | grep "^VIOLATION" | grep -c "no-failing-input-found")
    echo "$sd check=$P concrete=$conc nofailing=$nof $(echo "$out" | grep '^\[C' | sed 's/.*wall=/wall=/')" >> $LOG
  else
    echo "$sd patch-does-not-apply" >> $LOG
  fi
  git -C /repo worktree remove --force $WT
done
