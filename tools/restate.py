#!/usr/bin/env python3
"""tools/restate.py <Properties/Cxx.v> <prefix> "<Require/Import lines>" name1 name2 ...
Append `Theorem <prefix>_<name> : <type as Coq prints it>. Proof. exact @name. Qed. Print Assumptions ...`
for every lemma name, with the imports given (they are also appended to the property file).  The statement text is
what `Check @name` prints under those imports, so the property file shows the full statement, not a reference."""
import re, subprocess, sys
prop, prefix, imports, names = sys.argv[1], sys.argv[2], sys.argv[3], sys.argv[4:]
existing = open(f"/verif/coq/{prop}").read()
head = "\n".join(re.findall(r"(?ms)^(?:From|Require|Import|Local Open Scope|Open Scope)\b.*?\.(?=\s)", existing))
src = head + "\n" + imports + "\nSet Printing Width 100.\n" + "".join(f"Check @{n}.\n" for n in names)
open("/tmp/restate_chk.v", "w").write(src)
out = subprocess.run(["coqtop", "-Q", ".", "SR", "-batch", "-l", "/tmp/restate_chk.v"], capture_output=True, text=True, cwd="/verif/coq")
blocks = re.split(r"\n(?=\S)", out.stdout.strip())
types = {}
for b in blocks:
    m = re.match(r"@?(\w+)\s*\n?\s+: (.*)", b, flags=re.S)
    if m:
        types[m.group(1)] = m.group(2).rstrip()
missing = [n for n in names if n not in types]
if missing:
    print("missing:", missing, out.stderr[-2000:])
    sys.exit(1)
body = ["", imports, ""]
for n in names:
    body.append(f"Theorem {prefix}_{n} :\n  {types[n]}.\nProof. exact @{n}. Qed.\nPrint Assumptions {prefix}_{n}.\n")
print("\n".join(body))
