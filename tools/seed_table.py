#!/usr/bin/env python3
"""tools/seed_table.py [suffix-filter]  -- markdown rows for DESIGN.md section 10.1 from seeded/*/meta.json"""
import json, sys, pathlib
flt = sys.argv[1] if len(sys.argv) > 1 else ""
for d in sorted(pathlib.Path("/verif/seeded").iterdir()):
    if flt and flt not in d.name.split("-", 1)[1]:
        continue
    if not flt and "-2" in d.name:
        continue
    m = json.loads((d / "meta.json").read_text())
    print(f"| `seeded/{d.name}` | {m['needs_to_manifest']} | {m['result']} |")
