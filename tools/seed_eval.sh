#!/bin/bash
# tools/seed_eval.sh <PID> <patch> <demo.py> [props-to-check...]  -- confirm a seeded change and run our checks on it
PID=$1; PATCH=$2; DEMO=$3; shift 3; PROPS=${@:-$PID}
WT=/tmp/wt_seed_$$
git -C /repo worktree add -q $WT HEAD || exit 2
trap "git -C /repo worktree remove --force $WT" EXIT
echo "== demo on pristine tree"; (cd $WT && PYTHONPATH=$WT/src TQDM_DISABLE=1 timeout 900 /venv/bin/python $DEMO >/tmp/demo_clean_$$.log 2>&1; echo "exit=$?")
(cd $WT && git apply $PATCH) || { echo "patch does not apply"; exit 2; }
echo "== test suite with patch"; (cd $WT && PYTHONPATH=$WT/src timeout 900 /venv/bin/python -m pytest -q -p no:cacheprovider tests 2>&1 | tail -4)
echo "== demo with patch"; (cd $WT && PYTHONPATH=$WT/src TQDM_DISABLE=1 timeout 900 /venv/bin/python $DEMO >/tmp/demo_patch_$$.log 2>&1; echo "exit=$?"; tail -3 /tmp/demo_patch_$$.log)
for p in $PROPS; do echo "== check $p"; VERIF_REPO=$WT ${VERIF_DIR:-/verif}/check $p 2>&1 | grep -v "^KNOWN" | tail -4; done
rm -f /tmp/demo_clean_$$.log /tmp/demo_patch_$$.log
