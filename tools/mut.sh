#!/bin/bash
# tools/mut.sh "<props space separated>" <file relative to repo> <python-regex-from> <to>   -- scratch mutant run
set -e
WT=/tmp/wt_mut_$$
git -C /repo worktree add -q $WT HEAD
trap "git -C /repo worktree remove --force $WT" EXIT
/venv/bin/python - "$WT/$2" "$3" "$4" <<'PY'
import sys,re
p,a,b=sys.argv[1:4]
s=open(p).read()
n=len(re.findall(a,s))
assert n>=1, f"pattern not found: {a}"
s=re.sub(a,b,s,count=1)
open(p,'w').write(s)
PY
git -C $WT diff | grep '^[+-]' | grep -v '^+++\|^---'
for p in $1; do VERIF_REPO=$WT /verif/check $p | grep -v '^\[' | head -3; VERIF_REPO=$WT /verif/check $p | tail -1; done
