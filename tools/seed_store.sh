#!/bin/bash
# tools/seed_store.sh <PID> <A|B> "<what it needs to manifest>" "<checks that caught it / missed it>"
PID=$1; X=$2; SR=${SEEDROOT:-/tmp/seed}; D=/verif/seeded/$PID-${SUF:-}$X
mkdir -p $D
cp $SR/${PID}_out/patch$X.diff $D/patch.diff
cp $SR/${PID}_out/demo$X.py $D/demo.py
cp $SR/${PID}_out/notes.md $D/notes.md
/venv/bin/python - "$PID" "$X" "$3" "$4" > $D/meta.json <<'PY'
import json,sys
pid,x,needs,res=sys.argv[1:5]
print(json.dumps({"property": pid, "variant": x, "breaks": pid, "needs_to_manifest": needs,
  "confirmed": "tools/seed_eval.sh: demo exits 0 on the pristine tree and 1 with the patch; pinned test suite unchanged (55 passed, the 2 TeX tests fail as before)",
  "ran": f"tools/seed_eval.sh {pid} <scratch>/patch{x}.diff <scratch>/demo{x}.py <checks>",
  "result": res, "author": "independent sub-agent given only the property text and a scratch worktree"}, indent=1))
PY
echo stored $D
